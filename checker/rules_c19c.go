package main

import (
	"fmt"
	"go/token"

	"golang.org/x/tools/go/ssa"
)

// R19.6: published connection sets are immutable, and a removal is always published.
//  (a) client.conns holds a *clientConns that Conn()/Channel() read without the client mutex (atomic Load). Every
//      method of clientConns that derives a new set must therefore work on a copy: the receiver's own conns slice
//      may be measured, indexed for reading, ranged over and cloned - never appended to, stored into or handed to a
//      function that edits it in place (slices2.Remove compacts the backing array the readers are iterating).
//  (b) in client.onConnClosed the set without the closed connection is stored back on every path to every return;
//      otherwise a dead connection stays registered, Connected stays set with no usable connection, and an
//      auto-connect client never redials.

func init() {
	register(&Rule{ID: "R19.6", Props: []string{"C19", "C09"}, Floor: 3,
		Doc: "connection-set snapshots: methods of clientConns never edit the receiver's slice in place (copy-on-write); onConnClosed stores the reduced set on every path",
		Run: runR19_6})
}

func runR19_6(c *Ctx, registered *R) {
	// registered for C19 and C09; only "the reduced set is published" also belongs to C09 (an auto-connect client
	// that keeps a dead connection registered does not redial by itself)
	r := &R{c: c, rule: &Rule{ID: registered.rule.ID, Props: []string{"C19"}}}
	rPub := &R{c: c, rule: &Rule{ID: registered.rule.ID, Props: []string{"C19", "C09"}}}
	defer func() { registered.n += r.n + rPub.n }()
	n := 0
	for _, fn := range c.SrcFuncs("mpx") {
		if fn.Signature.Recv() == nil || len(fn.Params) == 0 || !typeIs(fn.Params[0].Type(), pkgPath("mpx"), "clientConns") {
			continue
		}
		recv := ssa.Value(fn.Params[0])
		k := 0
		allInstrs(fn, func(i ssa.Instruction) {
			ld, ok := i.(*ssa.UnOp)
			if !ok || ld.Op != token.MUL {
				return
			}
			fa, ok := ld.X.(*ssa.FieldAddr)
			if !ok || fa.X != recv || fieldOf(fa).Name() != "conns" {
				return
			}
			k++
			n++
			key := fmt.Sprintf("%s/conns-read#%d", fnKey(fn), k)
			bad := ""
			for _, u := range users(ld) {
				switch x := u.(type) {
				case *ssa.DebugRef:
				case *ssa.IndexAddr:
					for _, uu := range users(x) {
						if st, ok := uu.(*ssa.Store); ok && st.Addr == ssa.Value(x) {
							bad = "an element of the receiver's slice is overwritten"
						}
					}
				case *ssa.Index, *ssa.Range, *ssa.Slice:
				case *ssa.Call:
					if b, ok := x.Call.Value.(*ssa.Builtin); ok {
						switch b.Name() {
						case "len", "cap":
						case "append":
							if len(x.Call.Args) > 0 && x.Call.Args[0] == ssa.Value(ld) {
								bad = "append to the receiver's slice may write into the shared backing array"
							}
						case "copy":
							if len(x.Call.Args) > 0 && x.Call.Args[0] == ssa.Value(ld) {
								bad = "copy into the receiver's slice"
							}
						default:
							bad = "builtin " + b.Name() + " applied to the receiver's slice"
						}
						continue
					}
					if o := calleeObj(x); o != nil && o.Pkg() != nil && o.Pkg().Path() == "slices" && o.Name() == "Clone" {
						continue
					}
					bad = "the receiver's slice is handed to " + calleeLabelOrName(x) + ", which may edit it in place"
				case *ssa.Store:
					if x.Val == ssa.Value(ld) {
						bad = "the receiver's slice (not a copy) becomes the slice of another set"
					}
				default:
					if _, isPhi := u.(*ssa.Phi); isPhi {
						continue
					}
				}
			}
			if bad == "" {
				r.OK(key, ld.Pos(), "the published slice is only read (len, index, range, clone)")
			} else {
				r.Bad(key, ld.Pos(), "%s: Conn()/Channel() read the published set without the client mutex, they see a list that never existed or a nil entry", bad)
			}
		})
		// stores into the receiver's field
		allInstrs(fn, func(i ssa.Instruction) {
			st, ok := i.(*ssa.Store)
			if !ok {
				return
			}
			if fa, ok := st.Addr.(*ssa.FieldAddr); ok && fa.X == recv && fieldOf(fa).Name() == "conns" {
				n++
				r.Bad(fnKey(fn)+"/conns-write", st.Pos(), "a method of clientConns replaces the slice of its receiver: published sets must not change")
			}
		})
	}
	if n == 0 {
		r.Unk("mpx.clientConns", 0, "anchor lost: no read of clientConns.conns through a receiver")
	}
	// (b) the reduced set is published
	if f := r.Need("mpx", "client.onConnClosed"); f != nil {
		var rm *ssa.Call
		for _, call := range callsIn(f, false) {
			if o := calleeObj(call); o != nil && objName(o) == "clientConns.remove" {
				rm, _ = call.(*ssa.Call)
			}
		}
		key := fnKey(f) + "/removal-published"
		if rm == nil {
			r.Unk(key, f.Pos(), "anchor lost: onConnClosed does not call clientConns.remove")
			return
		}
		fl := &Flow{Must: true, Entry: Facts{}}
		fl.Transfer = func(i ssa.Instruction, fs Facts) {
			if call, ok := i.(ssa.CallInstruction); ok && calleeLabel(call) == "conns.Store" {
				if a := call.Common().Args; len(a) > 0 && a[len(a)-1] == ssa.Value(rm) {
					fs["stored"] = true
				}
			}
		}
		res := fl.Run(f)
		bad := ""
		for _, ret := range returnsOf(f) {
			if !reachesInstr(rm, ret) {
				continue
			}
			if fs := res.At(ret); fs != nil && !fs["BOT"] && !fs["stored"] {
				bad = c.pos(ret.Pos())
			}
		}
		if bad == "" {
			rPub.OK(key, rm.Pos(), "the set without the closed connection is stored on every path")
		} else {
			rPub.Bad(key, rm.Pos(), "the return at %s is reached without storing the set returned by remove(conn): the closed connection stays registered - Connected remains set without a usable connection and an auto-connect client does not redial", bad)
		}
	}
}
