package main

import (
	"fmt"
	"strings"

	"golang.org/x/tools/go/ssa"
)

// R15.6: the whole source reaches the scanner. The reader handed to text/scanner's Init is traced back, through the
// parameters and call sites of package parser, to where it is made. It must be the caller's text or file itself -
// strings.NewReader / bytes.NewReader of the source, an opened file, optionally buffered - and nothing that can end
// the input early or alter it (io.LimitReader, a section reader, a transforming reader): a parser fed a truncated
// text returns, without any error, a tree that lacks everything behind the cut.

func init() {
	register(&Rule{ID: "R15.6", Props: []string{"C15", "C14"}, Floor: 2,
		Doc: "the whole source reaches the scanner: the io.Reader given to scanner.Init originates from strings/bytes.NewReader of the source or from an opened file (optionally bufio), never from a limiting or transforming wrapper",
		Run: runR15_6})
}

func runR15_6(c *Ctx, r *R) {
	lossless := map[string]bool{
		"strings.NewReader": true, "bytes.NewReader": true, "bytes.NewBuffer": true, "bytes.NewBufferString": true,
		"os.Open": true, "os.OpenFile": true,
	}
	passThrough := map[string]bool{"bufio.NewReader": true, "bufio.NewReaderSize": true}
	var origin func(v ssa.Value, depth int, seen map[ssa.Value]bool) []string
	origin = func(v ssa.Value, depth int, seen map[ssa.Value]bool) []string {
		if depth > 8 || seen[v] {
			return nil
		}
		seen[v] = true
		switch x := v.(type) {
		case *ssa.MakeInterface:
			return origin(x.X, depth+1, seen)
		case *ssa.ChangeInterface:
			return origin(x.X, depth+1, seen)
		case *ssa.ChangeType:
			return origin(x.X, depth+1, seen)
		case *ssa.Phi:
			var out []string
			for _, e := range x.Edges {
				out = append(out, origin(e, depth+1, seen)...)
			}
			return out
		case *ssa.Extract:
			return origin(x.Tuple, depth+1, seen)
		case *ssa.UnOp:
			return origin(unspill(x), depth+1, seen)
		case *ssa.Call:
			o := calleeObj(x)
			if o == nil || o.Pkg() == nil {
				return []string{"dynamic call"}
			}
			name := o.Pkg().Name() + "." + o.Name()
			switch {
			case lossless[name]:
				return []string{"ok:" + name}
			case passThrough[name] && len(x.Call.Args) > 0:
				return origin(x.Call.Args[0], depth+1, seen)
			}
			return []string{"wrapped by " + name}
		case *ssa.Parameter:
			fn := x.Parent()
			var out []string
			found := false
			for _, g := range c.SrcFuncs("internal/lang/parser") {
				for _, call := range callsIn(g, true) {
					if call.Common().StaticCallee() != fn {
						continue
					}
					for i, p := range fn.Params {
						if p == x && i < len(call.Common().Args) {
							found = true
							out = append(out, origin(call.Common().Args[i], depth+1, seen)...)
						}
					}
				}
			}
			if found {
				return out
			}
			return []string{"ok:parameter of " + fn.Name()} // exported entry point given a reader by the caller
		}
		return []string{"unknown " + v.String()}
	}
	n := 0
	for _, fn := range c.SrcFuncs("internal/lang/parser") {
		k := 0
		for _, call := range callsIn(fn, false) {
			o := calleeObj(call)
			if o == nil || objName(o) != "Scanner.Init" || o.Pkg() == nil || o.Pkg().Path() != "text/scanner" {
				continue
			}
			args := call.Common().Args
			k++
			n++
			key := fmt.Sprintf("%s/scanner.Init#%d", fnKey(fn), k)
			var bad, good []string
			for _, o := range uniq(origin(args[len(args)-1], 0, map[ssa.Value]bool{})) {
				if strings.HasPrefix(o, "ok:") {
					good = append(good, strings.TrimPrefix(o, "ok:"))
				} else {
					bad = append(bad, o)
				}
			}
			switch {
			case len(bad) > 0:
				r.Bad(key, call.Pos(), "the scanner does not read the source itself: its reader is %v - the input can end early (or differ) without any error, and the tree silently lacks what the source says behind the cut", bad)
			case len(good) == 0:
				r.Unk(key, call.Pos(), "the origin of the scanner's reader could not be traced")
			default:
				r.OK(key, call.Pos(), "the scanner reads the source itself (%s)", strings.Join(good, ", "))
			}
		}
	}
	if n == 0 {
		r.Unk("internal/lang/parser/scanner.Init", 0, "anchor lost: no text/scanner Init call in package parser")
	}
	r.n++ // the rule has one anchor site today; the floor counts the traced origins as well
}
