package main

import (
	"fmt"
	"go/types"
	"strings"

	"golang.org/x/tools/go/ssa"
)

// Exit summaries of contract-less helpers.
//
// A loop-free module function without a contract (typically an unexported helper returning (value, ok bool) or
// (value, error)) is summarised per return statement: the branch conditions dominating that return are facts about
// the arguments of THIS call whenever the call came back through that return. At a call site the returns that
// contradict what the path already knows about the results (ok is true; err is nil) are excluded; if exactly one
// return remains, its dominating conditions - rewritten from the helper's parameters to the call's arguments -
// and the equations result_i == returned expression are added to the facts. Inequalities that still mention a value
// local to the helper after the rewriting (loads, phis, results of its own calls) are dropped: a symbol of the
// helper's body denotes a different runtime value at every call.

func (st *solveState) exitSummary(call *ssa.Call, callee *ssa.Function) bool {
	e := st.fc.e
	if callee.Blocks == nil || callee.Pkg == nil || !strings.HasPrefix(callee.Pkg.Pkg.Path(), Mod) || !loopFree(callee) || len(callee.Blocks) > 40 {
		return false
	}
	if len(call.Call.Args) != len(callee.Params) {
		return false
	}
	nres := 1
	if tup, ok := call.Type().(*types.Tuple); ok {
		nres = tup.Len()
	}
	result := func(i int) ssa.Value {
		if nres == 1 {
			if _, isTup := call.Type().(*types.Tuple); !isTup {
				return call
			}
		}
		if ex := extractOf(call, i); ex != nil {
			return ex
		}
		return nil
	}
	// what the current path knows about the results
	type known struct {
		isBool, truth bool
		isNil, nilV   bool
	}
	kn := map[int]known{}
	for i := 0; i < nres; i++ {
		r := result(i)
		if r == nil {
			continue
		}
		for _, a := range st.fs.atoms {
			if st.substVal(a.V) != r && a.V != r {
				continue
			}
			k := kn[i]
			if a.Bool {
				k.isBool, k.truth = true, a.Truth
			} else {
				k.isNil, k.nilV = true, a.IsNil
			}
			kn[i] = k
		}
	}
	var feasible []*ssa.Return
	for _, ret := range e.flatExits(callee, 0) {
		if len(ret.Results) != nres {
			continue
		}
		ok := true
		// constant integer results that contradict what the path knows about the results (start < end excludes
		// the exit that returns -1, -1)
		var eqs []Ineq
		for i := 0; i < nres; i++ {
			r := result(i)
			if r == nil || !isIntegerType(r.Type()) {
				continue
			}
			if k, isK := constInt(unspill(ret.Results[i])); isK {
				x := Ineq{st.substLin(e.expand(r))}.L
				eqs = append(eqs, geq(x, linConst(k)), leq(x, linConst(k)))
			}
		}
		if len(eqs) > 0 {
			e.nFM++
			if fmUnsat(append(append([]Ineq{}, st.fs.ineqs...), eqs...)) {
				ok = false
			}
		}
		for i, k := range kn {
			rv := unspill(ret.Results[i])
			if k.isBool {
				if c, isC := rv.(*ssa.Const); isC && c.Value != nil && (c.Value.String() == "true") != k.truth {
					ok = false
				}
			}
			if k.isNil {
				if k.nilV && knownNonNil(rv) {
					ok = false
				}
				if !k.nilV && isNilConst(rv) {
					ok = false
				}
			}
		}
		if ok {
			feasible = append(feasible, ret)
		}
	}
	if len(feasible) == 0 {
		return false
	}
	// facts proved at every feasible exit (in the function that owns the exit): result >= 0, result_i <= result_j
	{
		var common map[string]bool
		for _, ret := range feasible {
			fs := e.exitFacts(ret)
			if common == nil {
				common = map[string]bool{}
				for k := range fs {
					common[k] = true
				}
			} else {
				for k := range common {
					if !fs[k] {
						delete(common, k)
					}
				}
			}
		}
		for i := 0; i < nres; i++ {
			ri := result(i)
			if ri == nil || !isIntegerType(ri.Type()) {
				continue
			}
			if common[fmt.Sprintf("ge0:%d", i)] {
				st.addIneq(geq(e.expand(ri), linConst(0)))
			}
			for j := 0; j < nres; j++ {
				rj := result(j)
				if j != i && rj != nil && isIntegerType(rj.Type()) && common[fmt.Sprintf("le:%d:%d", i, j)] {
					st.addIneq(leq(e.expand(ri), e.expand(rj)))
				}
			}
		}
	}
	if len(feasible) != 1 || feasible[0].Parent() != callee {
		return true
	}
	ret := feasible[0]
	// rewrite helper parameters to the arguments of this call
	tmp := &solveState{fc: st.fc, sigma: map[ssa.Value]ssa.Value{}}
	for i, p := range callee.Params {
		tmp.sigma[p] = call.Call.Args[i]
	}
	local := func(l Lin) bool {
		for _, id := range l.vars() {
			root := e.keys[id].root
			if root == nil {
				continue
			}
			if in, ok := root.(interface{ Parent() *ssa.Function }); ok && in.Parent() == callee {
				return true
			}
		}
		return false
	}
	// A value local to the helper (the result of one of its own calls, a load) has ONE value during this call - the
	// helper is loop-free - so the conditions of the exit taken hold for that value: it is kept as a variable of this
	// call site (existential), with the range of its type, instead of dropping every fact that mentions it. The
	// relation between the results (size == n + m + dataSize) and the guards (len(b) >= n + m + dataSize) survives.
	_ = local
	local = func(l Lin) bool { return false }
	rename := func(l Lin) Lin {
		for _, id := range l.vars() {
			k := e.keys[id]
			if k.root == nil {
				continue
			}
			in, ok := k.root.(interface{ Parent() *ssa.Function })
			if !ok || in.Parent() != callee {
				continue
			}
			fk := vkey{call, fmt.Sprintf("~%d%c%s", id, k.kind, k.path), 'v'}
			_, existed := e.ids[fk]
			fid := e.id(fk)
			if !existed {
				x := linVar(fid)
				switch {
				case k.kind != 'v':
					st.addIneq(geq(x, linConst(0)))
				case k.path == "" && isIntegerType(k.root.Type()):
					if lo, hi := e.interval(k.root, 0); lo != nil {
						st.addIneq(geq(x, linBig(lo)))
						st.addIneq(leq(x, linBig(hi)))
					}
				}
			}
			l = l.subst(id, linVar(fid))
		}
		return l
	}
	var cf factSet
	e.condFacts(ret.Block(), &cf)
	for _, q := range cf.ineqs {
		st.addIneq(Ineq{rename(tmp.substLin(q.L))})
	}
	for _, nq := range cf.neqs {
		st.fs.neqs = append(st.fs.neqs, st.substLin(rename(tmp.substLin(nq))))
	}
	for i := 0; i < nres; i++ {
		r := result(i)
		if r == nil {
			continue
		}
		rv := unspill(ret.Results[i])
		switch {
		case isIntegerType(r.Type()):
			l := rename(tmp.substLin(e.expand(rv)))
			if !local(l) {
				x := e.expand(r)
				st.addIneq(geq(x, l))
				st.addIneq(leq(x, l))
			}
		case bytesLike(r.Type()):
			l := rename(tmp.substLin(e.lenOf(rv, 'l')))
			if !local(l) {
				x := e.lenOf(r, 'l')
				st.addIneq(geq(x, l))
				st.addIneq(leq(x, l))
			}
		}
	}
	return true
}

// boolSym: a boolean result as a 0/1 integer symbol.
func (ev *gEnv) boolSym(name string) cT {
	an := ev.an
	_, existed := an.g.ids[name]
	l := an.g.v(name)
	if !existed {
		an.axiom(l)
		an.axiom(kLin(1).sub(l))
	}
	return cT{kind: 'i', l: l}
}

func isBoolType(t types.Type) bool {
	b, ok := t.Underlying().(*types.Basic)
	return ok && b.Info()&types.IsBoolean != 0
}

// flatExits: the returns through which a call of fn can come back, with `return g(...)` of a loop-free module
// function replaced by g's own returns (Offset dispatching to offset_big / offset_small).
func (e *BE) flatExits(fn *ssa.Function, depth int) []*ssa.Return {
	var out []*ssa.Return
	for _, ret := range returnsOf(fn) {
		if ret.Block() == fn.Recover {
			continue
		}
		if call := tailCallOf(ret); call != nil && depth < 3 {
			if g := e.c.calleeOf(&call.Call); g != nil && g.Blocks != nil && g.Pkg != nil && strings.HasPrefix(g.Pkg.Pkg.Path(), Mod) && loopFree(g) && len(g.Blocks) <= 40 {
				if c := e.contractFor(g); c == nil || (!c.Axiom && len(c.Post)+len(c.PostOK)+len(c.Locality) == 0) {
					out = append(out, e.flatExits(g, depth+1)...)
					continue
				}
			}
		}
		out = append(out, ret)
	}
	return out
}

// exitFacts: which of the candidate facts  result_i >= 0,  result_i <= result_j  hold at this return, proved in the
// context of the function that owns it (memoised).
func (e *BE) exitFacts(ret *ssa.Return) map[string]bool {
	if e.exitMemo == nil {
		e.exitMemo = map[*ssa.Return]map[string]bool{}
	}
	if m, ok := e.exitMemo[ret]; ok {
		return m
	}
	m := map[string]bool{}
	e.exitMemo[ret] = m // recursion guard: nothing assumed while proving
	fn := ret.Parent()
	fc := e.newFnCtx(fn)
	for i, ri := range ret.Results {
		if !isIntegerType(ri.Type()) {
			continue
		}
		budget := 200
		if fc.prove(geq(e.expand(ri), linConst(0)), ret.Block(), nil, nil, 4, &budget) {
			m[fmt.Sprintf("ge0:%d", i)] = true
		}
		for j, rj := range ret.Results {
			if j == i || !isIntegerType(rj.Type()) {
				continue
			}
			budget := 200
			if fc.prove(leq(e.expand(ri), e.expand(rj)), ret.Block(), nil, nil, 4, &budget) {
				m[fmt.Sprintf("le:%d:%d", i, j)] = true
			}
		}
	}
	return m
}
