package main

import (
	"go/types"
	"strings"

	"golang.org/x/tools/go/ssa"
)

// Exit summaries of contract-less helpers.
//
// A loop-free module function without a contract (typically an unexported helper returning (value, ok bool) or
// (value, error)) is summarised per return statement: the branch conditions dominating that return are facts about
// the arguments of THIS call whenever the call came back through that return. At a call site the returns that
// contradict what the path already knows about the results (ok is true; err is nil) are excluded; if exactly one
// return remains, its dominating conditions - rewritten from the helper's parameters to the call's arguments -
// and the equations result_i == returned expression are added to the facts. Inequalities that still mention a value
// local to the helper after the rewriting (loads, phis, results of its own calls) are dropped: a symbol of the
// helper's body denotes a different runtime value at every call.

func (st *solveState) exitSummary(call *ssa.Call, callee *ssa.Function) bool {
	e := st.fc.e
	if callee.Blocks == nil || callee.Pkg == nil || !strings.HasPrefix(callee.Pkg.Pkg.Path(), Mod) || !loopFree(callee) || len(callee.Blocks) > 40 {
		return false
	}
	if len(call.Call.Args) != len(callee.Params) {
		return false
	}
	nres := 1
	if tup, ok := call.Type().(*types.Tuple); ok {
		nres = tup.Len()
	}
	result := func(i int) ssa.Value {
		if nres == 1 {
			if _, isTup := call.Type().(*types.Tuple); !isTup {
				return call
			}
		}
		if ex := extractOf(call, i); ex != nil {
			return ex
		}
		return nil
	}
	// what the current path knows about the results
	type known struct {
		isBool, truth bool
		isNil, nilV   bool
	}
	kn := map[int]known{}
	for i := 0; i < nres; i++ {
		r := result(i)
		if r == nil {
			continue
		}
		for _, a := range st.fs.atoms {
			if st.substVal(a.V) != r && a.V != r {
				continue
			}
			k := kn[i]
			if a.Bool {
				k.isBool, k.truth = true, a.Truth
			} else {
				k.isNil, k.nilV = true, a.IsNil
			}
			kn[i] = k
		}
	}
	var feasible []*ssa.Return
	for _, ret := range returnsOf(callee) {
		if ret.Block() == callee.Recover || len(ret.Results) != nres {
			continue
		}
		ok := true
		for i, k := range kn {
			rv := unspill(ret.Results[i])
			if k.isBool {
				if c, isC := rv.(*ssa.Const); isC && c.Value != nil && (c.Value.String() == "true") != k.truth {
					ok = false
				}
			}
			if k.isNil {
				if k.nilV && knownNonNil(rv) {
					ok = false
				}
				if !k.nilV && isNilConst(rv) {
					ok = false
				}
			}
		}
		if ok {
			feasible = append(feasible, ret)
		}
	}
	if len(feasible) != 1 {
		return false
	}
	ret := feasible[0]
	// rewrite helper parameters to the arguments of this call
	tmp := &solveState{fc: st.fc, sigma: map[ssa.Value]ssa.Value{}}
	for i, p := range callee.Params {
		tmp.sigma[p] = call.Call.Args[i]
	}
	local := func(l Lin) bool {
		for _, id := range l.vars() {
			root := e.keys[id].root
			if root == nil {
				continue
			}
			if in, ok := root.(interface{ Parent() *ssa.Function }); ok && in.Parent() == callee {
				return true
			}
		}
		return false
	}
	var cf factSet
	e.condFacts(ret.Block(), &cf)
	for _, q := range cf.ineqs {
		l := tmp.substLin(q.L)
		if !local(l) {
			st.addIneq(Ineq{l})
		}
	}
	for _, nq := range cf.neqs {
		l := tmp.substLin(nq)
		if !local(l) {
			st.fs.neqs = append(st.fs.neqs, st.substLin(l))
		}
	}
	for i := 0; i < nres; i++ {
		r := result(i)
		if r == nil {
			continue
		}
		rv := unspill(ret.Results[i])
		switch {
		case isIntegerType(r.Type()):
			l := tmp.substLin(e.expand(rv))
			if !local(l) {
				x := e.expand(r)
				st.addIneq(geq(x, l))
				st.addIneq(leq(x, l))
			}
		case bytesLike(r.Type()):
			l := tmp.substLin(e.lenOf(rv, 'l'))
			if !local(l) {
				x := e.lenOf(r, 'l')
				st.addIneq(geq(x, l))
				st.addIneq(leq(x, l))
			}
		}
	}
	return true
}

// boolSym: a boolean result as a 0/1 integer symbol.
func (ev *gEnv) boolSym(name string) cT {
	an := ev.an
	_, existed := an.g.ids[name]
	l := an.g.v(name)
	if !existed {
		an.axiom(l)
		an.axiom(kLin(1).sub(l))
	}
	return cT{kind: 'i', l: l}
}

func isBoolType(t types.Type) bool {
	b, ok := t.Underlying().(*types.Basic)
	return ok && b.Info()&types.IsBoolean != 0
}
