package main

import (
	"fmt"
	"go/token"
	"go/types"
	"strings"

	"golang.org/x/tools/go/ssa"
)

// Round-5 rules of the mpx client/channel.
//
// R07.9: the window update never waits for the sender's lock. channel.Send holds channelState.sendMu while it is
// blocked in decrementSendWindow waiting for the peer's window update (derived: the mutexes of channelState that
// are held at a call of a function containing the blocking select on the wake channel). The update that unblocks
// the PEER's sender is produced by OUR receiver (ReceiveAsync -> sender.sendWindow). If that path needs a mutex
// that our own blocked Send holds, two ends that both fill their windows wait for each other for ever. So: no
// function from which sendWindow is reachable, and no function reachable from sendWindow, acquires such a mutex.
//
// R03.8: state shared by the sending and the receiving goroutine is synchronised. A channelState is used
// concurrently by the user's sender, the user's receiver and the connection's receive loop. Every field is
// therefore either immutable after construction (assigned only in constructors / reset / the pool's New) and of a
// value or self-synchronised type, or of a synchronised type (sync/atomic, sync.Mutex, chan, the concurrent byte
// queue). A plain buffer kept in the state and filled by both sendData (under sendMu) and sendWindow (no lock) is
// a data race that corrupts frames.
//
// R06.8: release only after a successful acquire. channel.release() gives back the reference that acquire() /
// tryAcquire() took; a release (also a deferred one) that can run although tryAcquire reported false drops the
// count below zero and panics inside the receive loop ('release of released channel'), tearing the connection down
// for a frame that should have been dropped silently.
//
// R19.8: an auto-connect client retries after every failed attempt. In client.connect1 a failed attempt may end
// without scheduling the next one only because the routine's context is done, the client is closed, or the client
// connects on demand - decided by tests on ctx / closed_ / mode, not by the status of the dial (a dial that times
// out has status code 'timeout' as well).
//
// R19.9: the `connecting` slot never keeps a finished attempt. On every return of connect1 the slot was cleared or
// replaced by the next attempt; a finished failed routine left in the slot is handed to every later connect() and
// the client never dials again.
func init() {
	register(&Rule{ID: "R07.9", Props: []string{"C07", "C03", "C20", "C09"}, Floor: 1,
		Doc: "no mutex that a Send holds while blocked on flow control is acquired on the path that emits window updates (ReceiveAsync -> sendWindow and below)",
		Run: runR07_9})
	register(&Rule{ID: "R03.8", Props: []string{"C03", "C18"}, Floor: 12,
		Doc: "every field of mpx.channelState is immutable after construction or of a synchronised type",
		Run: runR03_8})
	register(&Rule{ID: "R06.8", Props: []string{"C06"}, Floor: 3,
		Doc: "channel.release() runs only where acquire() or a successful tryAcquire() preceded it",
		Run: runR06_8})
	register(&Rule{ID: "R19.8", Props: []string{"C19", "C09"}, Floor: 2,
		Doc: "client.connect1: a failed attempt ends without a retry only behind a test of the routine's context, the closed flag or the connect mode",
		Run: runR19_8})
	register(&Rule{ID: "R19.9", Props: []string{"C19", "C09"}, Floor: 2,
		Doc: "client.connect1: on every return the connecting slot was cleared or replaced",
		Run: runR19_9})
}

func mpxSrc(c *Ctx) []*ssa.Function {
	var out []*ssa.Function
	for _, f := range c.SrcFuncs("mpx") {
		fn := baseName(c.Fset.Position(f.Pos()).Filename)
		if strings.HasPrefix(fn, "test_") || strings.HasSuffix(fn, "_test.go") {
			continue
		}
		out = append(out, f)
	}
	return out
}

// mutexFieldOf: call is <x>.<field>.Lock() on a sync.Mutex/RWMutex field: returns the field.
func mutexFieldOf(call ssa.CallInstruction, method string) *types.Var {
	cc := call.Common()
	cal := cc.StaticCallee()
	if cal == nil || cal.Name() != method || len(cc.Args) == 0 {
		return nil
	}
	if o := cal.Object(); o == nil || o.Pkg() == nil || o.Pkg().Path() != "sync" {
		return nil
	}
	fa, ok := cc.Args[0].(*ssa.FieldAddr)
	if !ok {
		return nil
	}
	return fieldOf(fa)
}

func runR07_9(c *Ctx, r *R) {
	funcs := mpxSrc(c)
	// functions that block on the window wake channel
	blocksOnWindow := map[*ssa.Function]bool{}
	for _, f := range funcs {
		allInstrs(f, func(i ssa.Instruction) {
			if s, ok := i.(*ssa.Select); ok && s.Blocking {
				for _, st := range s.States {
					if valueSource(st.Chan) == ".sendWindowWait" {
						blocksOnWindow[f] = true
					}
				}
			}
		})
	}
	// helpers that call them count as blocking too (one level)
	for _, f := range funcs {
		for _, call := range callsIn(f, false) {
			if h := call.Common().StaticCallee(); h != nil && blocksOnWindow[h] && f.Parent() == nil {
				if _, isGo := call.(*ssa.Go); !isGo && !blocksOnWindow[f] && strings.HasSuffix(f.Name(), "SendWindow") {
					blocksOnWindow[f] = true
				}
			}
		}
	}
	// mutexes held at a call of a blocking function: Lock dominates the call, no Unlock in between (deferred
	// unlocks run at exit)
	held := map[*types.Var]string{}
	for _, f := range funcs {
		for _, call := range callsIn(f, false) {
			h := call.Common().StaticCallee()
			if h == nil || !blocksOnWindow[h] {
				continue
			}
			for _, lk := range callsIn(f, false) {
				fld := mutexFieldOf(lk, "Lock")
				if fld == nil || !dominatesInstr(lk.(ssa.Instruction), call.(ssa.Instruction)) {
					continue
				}
				released := false
				for _, ul := range callsIn(f, false) {
					if _, isDefer := ul.(*ssa.Defer); isDefer {
						continue
					}
					if mutexFieldOf(ul, "Unlock") == fld && reachesInstr(lk.(ssa.Instruction), ul.(ssa.Instruction)) && reachesInstr(ul.(ssa.Instruction), call.(ssa.Instruction)) {
						released = true
					}
				}
				if !released {
					held[fld] = fnKey(f)
				}
			}
		}
	}
	if len(held) == 0 {
		r.Unk("mpx/flow-control/blocking-locks", 0, "anchor lost: no mutex is held across the blocking wait for window (the sender's lock was not found)")
		return
	}
	// the credit path: ancestors and descendants of sendWindow in the package's static call graph
	var sw *ssa.Function
	for _, f := range funcs {
		if f.Name() == "sendWindow" && f.Parent() == nil {
			sw = f
		}
	}
	if sw == nil {
		r.Unk("mpx/flow-control/sendWindow", 0, "anchor lost: no sendWindow function")
		return
	}
	callees := map[*ssa.Function][]*ssa.Function{}
	callers := map[*ssa.Function][]*ssa.Function{}
	inPkg := map[*ssa.Function]bool{}
	for _, f := range funcs {
		inPkg[f] = true
	}
	for _, f := range funcs {
		root := f
		for root.Parent() != nil {
			root = root.Parent()
		}
		for _, call := range callsIn(f, false) {
			if _, isGo := call.(*ssa.Go); isGo {
				continue
			}
			if h := call.Common().StaticCallee(); h != nil && inPkg[h] {
				callees[root] = append(callees[root], h)
				callers[h] = append(callers[h], root)
			}
			// a call through an interface of the package (internalChannel.receive): every method of that name
			if call.Common().IsInvoke() {
				if m := call.Common().Method; m.Pkg() != nil && m.Pkg().Path() == pkgPath("mpx") {
					iface, _ := call.Common().Value.Type().Underlying().(*types.Interface)
					for _, h := range funcs {
						if h.Parent() != nil || h.Signature.Recv() == nil || h.Name() != m.Name() || iface == nil {
							continue
						}
						// only methods of types that implement the interface (channel.send is not internalConn.send)
						rt := h.Signature.Recv().Type()
						if !types.Implements(rt, iface) && !types.Implements(types.NewPointer(rt), iface) {
							continue
						}
						callees[root] = append(callees[root], h)
						callers[h] = append(callers[h], root)
					}
				}
			}
		}
	}
	path := map[*ssa.Function]bool{sw: true}
	for _, dir := range []map[*ssa.Function][]*ssa.Function{callers, callees} {
		work := []*ssa.Function{sw}
		seen := map[*ssa.Function]bool{sw: true}
		for len(work) > 0 {
			f := work[0]
			work = work[1:]
			for _, g := range dir[f] {
				if !seen[g] {
					seen[g] = true
					path[g] = true
					work = append(work, g)
				}
			}
		}
	}
	// ... and everything the receive loop runs: the window update that unblocks our sender ARRIVES through it (and
	// so does the peer's close), so a frame handler that waits for the mutex of a blocked Send stalls the whole
	// connection
	for _, f := range funcs {
		if f.Name() == "receiveLoop" && f.Parent() == nil && typeIsRecv(f, "conn") {
			work := []*ssa.Function{f}
			seen := map[*ssa.Function]bool{f: true}
			for len(work) > 0 {
				g := work[0]
				work = work[1:]
				path[g] = true
				for _, h := range callees[g] {
					if !seen[h] {
						seen[h] = true
						work = append(work, h)
					}
				}
			}
		}
	}
	n := 0
	for _, f := range funcs {
		root := f
		for root.Parent() != nil {
			root = root.Parent()
		}
		if !path[root] {
			continue
		}
		n++
		key := fnKey(f) + "/no-sender-lock"
		bad := ""
		for _, lk := range callsIn(f, false) {
			if fld := mutexFieldOf(lk, "Lock"); fld != nil && held[fld] != "" {
				bad = fmt.Sprintf("%s acquires %s at %s, the mutex %s holds while it waits for window", f.Name(), fld.Name(), c.pos(lk.Pos()), held[fld])
			}
		}
		if bad == "" {
			r.OK(key, f.Pos(), "on the window-update path, takes no mutex a blocked sender holds")
		} else {
			r.Bad(key, f.Pos(), "%s: the receiver of this end cannot emit its window update while this end's Send is blocked - when both ends have filled their windows each Send waits for an update only the other end's receiver can send, and each receiver waits for its own end's sender: neither side makes progress", bad)
		}
	}
	if n == 0 {
		r.Unk("mpx/flow-control/credit-path", 0, "anchor lost: empty window-update path")
	}
}

func runR03_8(c *Ctx, r *R) {
	p := c.Pkg("mpx")
	if p == nil {
		return
	}
	obj, _ := p.Types.Scope().Lookup("channelState").(*types.TypeName)
	if obj == nil {
		r.Unk("mpx.channelState", 0, "anchor lost: type not found")
		return
	}
	st, ok := obj.Type().Underlying().(*types.Struct)
	if !ok {
		return
	}
	synchronised := func(t types.Type) string {
		if _, ok := t.Underlying().(*types.Chan); ok {
			return "channel"
		}
		n := namedOf(t)
		if n == nil || n.Obj().Pkg() == nil {
			return ""
		}
		path, name := n.Obj().Pkg().Path(), n.Obj().Name()
		switch {
		case path == "sync/atomic" || path == "sync":
			return path + "." + name
		case strings.HasSuffix(path, "alloc/bytequeue") && name == "Queue":
			return "concurrent byte queue"
		}
		return ""
	}
	// self-synchronised or stateless types that may be shared when the field itself is never reassigned
	shareable := func(t types.Type) string {
		switch u := t.Underlying().(type) {
		case *types.Basic:
			return "value"
		case *types.Array:
			if _, ok := u.Elem().Underlying().(*types.Basic); ok {
				return "value"
			}
		}
		n := namedOf(t)
		if n != nil && n.Obj().Pkg() != nil && n.Obj().Pkg().Path() == pkgPath("mpx") {
			switch n.Obj().Name() {
			case "context", "internalConn", "channelSender":
				return "own synchronisation (" + n.Obj().Name() + ")"
			}
		}
		if n != nil && n.Obj().Pkg() != nil && strings.HasSuffix(n.Obj().Pkg().Path(), "/bin") {
			return "value"
		}
		return ""
	}
	ctor := func(name string) bool {
		return name == "newChannelState" || name == "openChannelState" || name == "reset" || name == "init"
	}
	// where is each field assigned?
	assignedIn := map[*types.Var][]string{}
	for _, f := range mpxSrc(c) {
		allInstrs(f, func(i ssa.Instruction) {
			s, ok := i.(*ssa.Store)
			if !ok {
				return
			}
			fa, ok := s.Addr.(*ssa.FieldAddr)
			if !ok || !typeIs(deref(fa.X.Type()), pkgPath("mpx"), "channelState") {
				return
			}
			root := f
			for root.Parent() != nil {
				root = root.Parent()
			}
			name := root.Name()
			// a helper that only constructors / reset call is part of them (freeContext called by reset)
			if !ctor(name) && onlyCalledFrom(root, ctor, 0) {
				name = "reset"
			}
			assignedIn[fieldOf(fa)] = append(assignedIn[fieldOf(fa)], name)
		})
	}
	for i := 0; i < st.NumFields(); i++ {
		f := st.Field(i)
		key := "mpx.channelState." + f.Name() + "/shared-field"
		if why := synchronised(f.Type()); why != "" {
			r.OK(key, f.Pos(), "synchronised type: %s", why)
			continue
		}
		var late []string
		for _, w := range assignedIn[f] {
			if !ctor(w) {
				late = append(late, w)
			}
		}
		why := shareable(f.Type())
		switch {
		case len(late) > 0:
			r.Bad(key, f.Pos(), "field %s (%s) is assigned in %v after construction without synchronisation, while the state is used by the sender, the receiver and the receive loop concurrently", f.Name(), f.Type(), uniq(late))
		case why == "" && !mutableContainer(f.Type()):
			r.OK(key, f.Pos(), "assigned only at construction; the type %s is not a mutable container (its own synchronisation is not judged here)", f.Type())
		case why == "":
			r.Bad(key, f.Pos(), "field %s has the unsynchronised mutable type %s in the state shared by the sending and the receiving side: both sides using it (a frame buffer filled by sendData under sendMu and by sendWindow without it) overwrite each other - corrupted or lost frames", f.Name(), f.Type())
		default:
			r.OK(key, f.Pos(), "assigned only at construction, %s", why)
		}
	}
}

func runR06_8(c *Ctx, r *R) {
	n := 0
	for _, f := range mpxSrc(c) {
		k := 0
		// borrowers only: Free()/free() give back the reference their caller owns (R06.2's subject)
		borrows := false
		for _, call := range callsIn(f, false) {
			if o := calleeObj(call); o != nil && (objName(o) == "channel.acquire" || objName(o) == "channel.tryAcquire") {
				borrows = true
			}
		}
		if !borrows {
			continue
		}
		for _, call := range callsIn(f, false) {
			o := calleeObj(call)
			if o == nil || objName(o) != "channel.release" {
				continue
			}
			k++
			n++
			key := fmt.Sprintf("%s/release#%d", fnKey(f), k)
			ci := call.(ssa.Instruction)
			good, why := false, ""
			for _, a := range callsIn(f, false) {
				ao := calleeObj(a)
				av, isCall := a.(*ssa.Call)
				if ao == nil || !isCall || !dominatesInstr(av, ci) {
					continue
				}
				switch objName(ao) {
				case "channel.acquire":
					good, why = true, "acquire() precedes"
				case "channel.tryAcquire":
					okv := extractOf(av, 1)
					for _, cd := range pathConds(ci.Block()) {
						v, truth := cd.V, cd.Truth
						if un, isNot := v.(*ssa.UnOp); isNot && un.Op == token.NOT {
							v, truth = un.X, !truth
						}
						if okv != nil && v == ssa.Value(okv) && truth {
							good, why = true, "behind tryAcquire() == true"
						}
					}
				}
			}
			if good {
				r.OK(key, call.Pos(), "%s", why)
			} else {
				r.Bad(key, call.Pos(), "release() can run although no reference was taken (tryAcquire reported false, or nothing acquired): the count drops below zero and release panics ('release of released channel') inside the receive loop - the connection is torn down for a frame that should have been dropped")
			}
		}
	}
	if n == 0 {
		r.Unk("mpx/channel.release", 0, "anchor lost: no call of channel.release")
	}
}

func runR19_8(c *Ctx, r *R) {
	f := r.Need("mpx", "client.connect1")
	if f == nil {
		return
	}
	sa := newStatusAn(c)
	// the retry: a method value of connect1 handed to async.Run
	var restart ssa.Instruction
	allInstrs(f, func(i ssa.Instruction) {
		if mc, ok := i.(*ssa.MakeClosure); ok {
			if fn, ok := mc.Fn.(*ssa.Function); ok && strings.Contains(fn.Name(), "connect1") {
				restart = i
			}
		}
	})
	if restart == nil {
		r.Unk(fnKey(f)+"/retry", f.Pos(), "anchor lost: connect1 does not restart itself")
		return
	}
	ctx := ssa.Value(nil)
	for _, p := range f.Params {
		if strings.HasSuffix(p.Type().String(), "async.Context") {
			ctx = p
		}
	}
	// conditions that justify giving up
	var justified func(v ssa.Value, truth bool, depth int) string
	justified = func(v ssa.Value, truth bool, depth int) string {
		if depth > 4 {
			return ""
		}
		switch x := v.(type) {
		case *ssa.UnOp:
			if x.Op == token.NOT {
				return justified(x.X, !truth, depth+1)
			}
			if x.Op == token.MUL && strings.HasSuffix(valueSource(x), ".mode") {
				return "connect mode"
			}
		case *ssa.BinOp:
			for _, side := range []ssa.Value{x.X, x.Y} {
				if ex, ok := side.(*ssa.Extract); ok {
					if sel, ok := ex.Tuple.(*ssa.Select); ok && ex.Index == 0 {
						for _, st := range sel.States {
							if w, ok := st.Chan.(*ssa.Call); ok && w.Call.IsInvoke() && w.Call.Method.Name() == "Wait" {
								if w.Call.Value == ctx {
									return "context of the routine"
								}
								if strings.HasSuffix(valueSource(w.Call.Value), ".closed_") {
									return "closed flag"
								}
							}
						}
					}
				}
				if s := justified(side, true, depth+1); s == "connect mode" {
					return s
				}
			}
		case *ssa.Call:
			// a predicate helper of the client (c.stopped(ctx)): its result has this value only on exits behind a
			// justified test
			if h := x.Call.StaticCallee(); h != nil && h.Blocks != nil && h.Pkg == f.Pkg && isBoolType(x.Type()) && depth < 2 {
				why := ""
				if helperExcludes(h, 0, truth, func(hcd Cond) bool {
					if s := justifiedIn(h, ctxArgOf(x, h, ctx), hcd.V, hcd.Truth); s != "" {
						why = s
						return true
					}
					return false
				}) {
					return why
				}
			}
			if x.Call.IsInvoke() && truth {
				switch x.Call.Method.Name() {
				case "IsSet":
					if strings.HasSuffix(valueSource(x.Call.Value), ".closed_") {
						return "closed flag"
					}
				case "Done":
					if x.Call.Value == ctx {
						return "context of the routine"
					}
				}
			}
		}
		return ""
	}
	n := 0
	for _, ret := range returnsOf(f) {
		if ret.Block() == f.Recover || len(ret.Results) < 2 {
			continue
		}
		if sa.classOf(ret.Results[len(ret.Results)-1], ret.Block(), false, 0) == SOK {
			continue
		}
		n++
		key := fmt.Sprintf("%s/gives-up#%d", fnKey(f), n)
		if dominatesInstr(restart, ret) {
			r.OK(key, ret.Pos(), "the next attempt is scheduled")
			continue
		}
		why := ""
		for _, cd := range pathConds(ret.Block()) {
			if s := justified(cd.V, cd.Truth, 0); s != "" {
				why = s
			}
		}
		if why != "" {
			r.OK(key, ret.Pos(), "no retry: %s", why)
		} else {
			r.Bad(key, ret.Pos(), "a failed attempt ends here without scheduling the next one and without a test of the routine's context, the closed flag or the connect mode (a test of the dial's status code does not tell a cancelled routine from a dial that timed out): an auto-connect client whose dial times out never reconnects")
		}
	}
	if n == 0 {
		r.Unk(fnKey(f)+"/gives-up", f.Pos(), "no failing return found")
	}
}

func runR19_9(c *Ctx, r *R) {
	f := r.Need("mpx", "client.connect1")
	if f == nil {
		return
	}
	_, res := mustCalls(f)
	n := 0
	for _, ret := range returnsOf(f) {
		if ret.Block() == f.Recover {
			continue
		}
		fa := res.At(ret)
		if fa == nil {
			continue
		}
		n++
		key := fmt.Sprintf("%s/slot#%d", fnKey(f), n)
		if fa["connecting.Clear"] || fa["connecting.Set"] {
			r.OK(key, ret.Pos(), "the connecting slot was cleared or replaced on every path to this return")
		} else {
			r.Bad(key, ret.Pos(), "connect1 can return with its own, finished routine still in the connecting slot: connect() hands that routine to every later caller, which gets the old result at once and never dials again - an on-demand client stays disconnected after one failed attempt")
		}
	}
	if n == 0 {
		r.Unk(fnKey(f)+"/slot", f.Pos(), "no return found")
	}
}

// onlyCalledFrom: every static caller of unexported fn (two levels) satisfies ok, and fn does not escape as a value.
func onlyCalledFrom(fn *ssa.Function, ok func(name string) bool, depth int) bool {
	if fn.Parent() != nil || token.IsExported(fn.Name()) || depth >= 2 {
		return false
	}
	sites, escapes := sitesOf(fn)
	if escapes || len(sites) == 0 {
		return false
	}
	for _, s := range sites {
		caller := s.Parent()
		for caller.Parent() != nil {
			caller = caller.Parent()
		}
		if ok(caller.Name()) {
			continue
		}
		if !onlyCalledFrom(caller, ok, depth+1) {
			return false
		}
	}
	return true
}

// mutableContainer: slices, maps and buffer / builder / writer objects - values whose use IS mutation.
func mutableContainer(t types.Type) bool {
	switch t.Underlying().(type) {
	case *types.Slice, *types.Map:
		return true
	}
	if p, ok := t.(*types.Pointer); ok {
		t = p.Elem()
	}
	if n := namedOf(t); n != nil {
		name := n.Obj().Name()
		for _, s := range []string{"Buffer", "Builder", "Writer"} {
			if strings.Contains(name, s) {
				return true
			}
		}
	}
	return false
}

// ctxArgOf: the parameter of helper h that receives the routine's context at this call (nil if none).
func ctxArgOf(call *ssa.Call, h *ssa.Function, ctx ssa.Value) ssa.Value {
	for i, a := range call.Call.Args {
		if a == ctx && i < len(h.Params) {
			return h.Params[i]
		}
	}
	return nil
}

// justifiedIn: inside a predicate helper, the condition tests the context handed in, the closed flag or the mode.
func justifiedIn(h *ssa.Function, ctx ssa.Value, v ssa.Value, truth bool) string {
	for i := 0; i < 4; i++ {
		un, ok := v.(*ssa.UnOp)
		if !ok || un.Op != token.NOT {
			break
		}
		v, truth = un.X, !truth
	}
	switch x := v.(type) {
	case *ssa.UnOp:
		if x.Op == token.MUL && strings.HasSuffix(valueSource(x), ".mode") {
			return "connect mode"
		}
	case *ssa.BinOp:
		for _, side := range []ssa.Value{x.X, x.Y} {
			if ex, ok := side.(*ssa.Extract); ok {
				if sel, ok := ex.Tuple.(*ssa.Select); ok && ex.Index == 0 {
					for _, st := range sel.States {
						if w, ok := st.Chan.(*ssa.Call); ok && w.Call.IsInvoke() && w.Call.Method.Name() == "Wait" {
							if ctx != nil && w.Call.Value == ctx {
								return "context of the routine"
							}
							if strings.HasSuffix(valueSource(w.Call.Value), ".closed_") {
								return "closed flag"
							}
						}
					}
				}
			}
			if ld, ok := side.(*ssa.UnOp); ok && ld.Op == token.MUL && strings.HasSuffix(valueSource(ld), ".mode") {
				return "connect mode"
			}
		}
	case *ssa.Call:
		if x.Call.IsInvoke() && truth {
			switch x.Call.Method.Name() {
			case "IsSet":
				if strings.HasSuffix(valueSource(x.Call.Value), ".closed_") {
					return "closed flag"
				}
			case "Done":
				if ctx != nil && x.Call.Value == ctx {
					return "context of the routine"
				}
			}
		}
	}
	return ""
}
