package main

import (
	"fmt"
	"go/token"
	"go/types"

	"golang.org/x/tools/go/ssa"
)

// R14.8: unique registries. The model packages keep one registry (map or ordered map) per namespace of the
// language: packages, files, imports, options, definitions, fields by name and by tag, enum values by name and by
// number, methods, struct fields. "Duplicate names, tags or enum numbers are rejected" holds only if every
// insertion into such a registry is reached through a failed membership test of the same registry with the same
// key, whose positive outcome returns an error. An unguarded insertion silently overwrites the earlier entry
// (two files of a package defining the same type then generate two Go declarations that do not compile).

func init() {
	register(&Rule{ID: "R14.8", Props: []string{"C14", "C05"}, Floor: 9,
		Doc: "unique registries: every insertion into a name/tag/number registry of internal/lang/model is dominated by a failed membership test of the same registry and key whose positive branch returns an error",
		Run: runR14_8})
}

// registry insertions that need no duplicate test, with the reason
var r14RegistryExempt = map[string]string{
	"internal/lang/model.Package.parseFile/FileNames": "files come from one directory listing (parsePackage <- compiler.parseDirectory): two files of a package cannot share a name",
}

func runR14_8(c *Ctx, r *R) {
	real := r
	outer := &R{c: c, rule: &Rule{ID: r.rule.ID, Props: []string{"C14"}}}
	fieldsR := &R{c: c, rule: &Rule{ID: r.rule.ID, Props: []string{"C14", "C05"}}}
	defer func() { real.n += outer.n + fieldsR.n }()
	n := 0
	// the object a registry lives in, and the registry's field: load of FieldAddr(base, F)
	regOf := func(v ssa.Value) (ssa.Value, *types.Var) {
		if u, ok := v.(*ssa.UnOp); ok && u.Op == token.MUL {
			if fa, ok := u.X.(*ssa.FieldAddr); ok {
				return fa.X, fieldOf(fa)
			}
		}
		if fa, ok := v.(*ssa.FieldAddr); ok { // method on an addressable field: (&s.Fields).Put
			return fa.X, fieldOf(fa)
		}
		return nil, nil
	}
	sameKey := func(fn *ssa.Function, a, b ssa.Value) bool {
		if a == b {
			return true
		}
		pa, _ := accessPath(fn, a, false)
		pb, _ := accessPath(fn, b, false)
		if pa != "" && pa == pb {
			// both are loads of the same path; a store in between would be needed to make them differ: the model
			// builds each element before registering it and does not rename it in between (checked: no store to
			// the path's last field between the two loads in this function)
			return true
		}
		return false
	}
	errorReturn := func(b *ssa.BasicBlock) bool {
		// the block (or its single successor chain) returns with a non-nil last result
		for k := 0; k < 4 && b != nil; k++ {
			if ret, ok := b.Instrs[len(b.Instrs)-1].(*ssa.Return); ok {
				if len(ret.Results) == 0 {
					return false
				}
				return !isNilConst(ret.Results[len(ret.Results)-1])
			}
			if len(b.Succs) != 1 {
				return false
			}
			b = b.Succs[0]
		}
		return false
	}
	for _, fn := range c.SrcFuncs("internal/lang/model") {
		cnt := map[string]int{}
		allInstrs(fn, func(i ssa.Instruction) {
			var base ssa.Value
			var fld *types.Var
			var key ssa.Value
			switch x := i.(type) {
			case *ssa.MapUpdate:
				base, fld = regOf(x.Map)
				key = x.Key
			case *ssa.Call:
				o := calleeObj(x)
				if o == nil || o.Name() != "Put" || len(x.Call.Args) < 2 {
					return
				}
				recv := x.Call.Args[0]
				if x.Call.IsInvoke() {
					recv = x.Call.Value
				}
				if !typeIs(recv.Type(), "github.com/basecomplextech/baselibrary/collect", "OrderedMap") && !typeIs(deref(recv.Type()), "github.com/basecomplextech/baselibrary/collect", "OrderedMap") {
					if named := namedOf(recv.Type()); named == nil || named.Obj().Name() != "OrderedMap" {
						return
					}
				}
				base, fld = regOf(recv)
				if x.Call.IsInvoke() {
					key = x.Call.Args[0]
				} else {
					key = x.Call.Args[1]
				}
			default:
				return
			}
			if fld == nil {
				return // local map (not a registry of a model object)
			}
			// field names and tags must be unique for the tag-addressed translation to round-trip (C05): two
			// accepted fields with one tag share one writer slot and one accessor
			r := outer
			if fn.Name() == "newFields" || fld.Name() == "Tags" {
				r = fieldsR
			}
			n++
			cnt[fld.Name()]++
			key0 := fmt.Sprintf("%s/%s", fnKey(fn), fld.Name())
			if cnt[fld.Name()] > 1 {
				key0 = fmt.Sprintf("%s#%d", key0, cnt[fld.Name()])
			}
			if why := r14RegistryExempt[key0]; why != "" {
				r.OK(key0, i.Pos(), "exempt: %s", why)
				return
			}
			guarded, errs := false, false
			for _, cd := range pathConds(i.Block()) {
				var gBase ssa.Value
				var gFld *types.Var
				var gKey ssa.Value
				// form 2: m[k] == nil on the path to the insertion
				for _, rel := range relsOf(cd) {
					x, y := rel.X, rel.Y
					if isNilConst(x) {
						x, y = y, x
					}
					if lk, ok := x.(*ssa.Lookup); ok && !lk.CommaOk && isNilConst(y) && rel.Op == token.EQL {
						gBase, gFld = regOf(lk.X)
						gKey = lk.Index
					}
				}
				if gFld != nil {
					if gFld == fld && gBase == base && sameKey(fn, gKey, key) {
						guarded = true
						for _, b := range fn.Blocks {
							if ifi, ok := b.Instrs[len(b.Instrs)-1].(*ssa.If); ok && ifi.Cond == cd.V {
								pos := b.Succs[0]
								if cd.Truth {
									pos = b.Succs[1]
								}
								if errorReturn(pos) {
									errs = true
								}
							}
						}
					}
					continue
				}
				// form 1: _, ok := m[k] / m.Get(k) with ok false on the path to the insertion
				ex, ok := cd.V.(*ssa.Extract)
				if !ok || ex.Index != 1 || cd.Truth {
					continue
				}
				switch t := ex.Tuple.(type) {
				case *ssa.Lookup:
					if !t.CommaOk {
						continue
					}
					gBase, gFld = regOf(t.X)
					gKey = t.Index
				case *ssa.Call:
					o := calleeObj(t)
					if o == nil || (o.Name() != "Get" && o.Name() != "Contains") {
						continue
					}
					if t.Call.IsInvoke() {
						gBase, gFld = regOf(t.Call.Value)
						gKey = t.Call.Args[0]
					} else if len(t.Call.Args) >= 2 {
						gBase, gFld = regOf(t.Call.Args[0])
						gKey = t.Call.Args[1]
					}
				default:
					continue
				}
				if gFld != fld || gBase != base || !sameKey(fn, gKey, key) {
					continue
				}
				guarded = true
				// the positive branch of that test
				for _, b := range fn.Blocks {
					if ifi, ok := b.Instrs[len(b.Instrs)-1].(*ssa.If); ok && ifi.Cond == cd.V {
						if errorReturn(b.Succs[0]) {
							errs = true
						}
					}
				}
			}
			switch {
			case guarded && errs:
				r.OK(key0, i.Pos(), "insertion reached only after a failed membership test of %s with the same key; a present key returns an error", fld.Name())
			case guarded:
				r.Bad(key0, i.Pos(), "the membership test of %s before this insertion does not return an error for a present key: the duplicate is not rejected", fld.Name())
			default:
				r.Bad(key0, i.Pos(), "insertion into the registry %s is not dominated by a membership test of the same registry and key: a duplicate silently replaces the earlier entry instead of being rejected with an error", fld.Name())
			}
		})
	}
	r.Note("%d registry insertions in internal/lang/model", n)
}
