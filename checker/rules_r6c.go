package main

import (
	"fmt"
	"go/constant"
	"go/token"
	"strings"

	"golang.org/x/tools/go/ssa"
)

// R14.23: every qualified reference to an imported type uses the name the import line binds. The generator's type
// helpers build `<qualifier>.<Ident>` with fmt.Sprintf("%v.…", …); the import block binds each schema import under
// Import.Name (the alias when one is given, R14.11), which Type.ImportName carries. A helper that qualifies with the
// imported package's OWN name (imp.Package.Name) produces an undefined identifier exactly for aliased imports - the
// schema is accepted, the generated package does not compile. Every such Sprintf in internal/lang/generator whose
// format starts with "%v." must be fed Type.ImportName as its first operand.
func init() {
	register(&Rule{ID: "R14.23", Props: []string{"C14", "C05"}, Floor: 1,
		Doc: "qualified references to imported types are built with Type.ImportName (the name bound by the import line)",
		Run: runR14_23})
}

func runR14_23(c *Ctx, r *R) {
	n := 0
	for _, fn := range c.SrcFuncs("internal/lang/generator") {
		k := 0
		for _, call := range callsIn(fn, false) {
			o := calleeObj(call)
			if o == nil || o.Pkg() == nil || o.Pkg().Path() != "fmt" || o.Name() != "Sprintf" {
				continue
			}
			args := call.Common().Args
			if len(args) < 2 {
				continue
			}
			fk, ok := args[0].(*ssa.Const)
			if !ok || fk.Value == nil || fk.Value.Kind() != constant.String || !strings.HasPrefix(constant.StringVal(fk.Value), "%v.") {
				continue
			}
			// first element of the variadic slice
			sl, ok := args[1].(*ssa.Slice)
			if !ok {
				continue
			}
			arr, ok := sl.X.(*ssa.Alloc)
			if !ok {
				continue
			}
			var first ssa.Value
			for _, u := range users(arr) {
				ia, ok := u.(*ssa.IndexAddr)
				if !ok {
					continue
				}
				if kk, isK := constInt(ia.Index); !isK || kk != 0 {
					continue
				}
				for _, u2 := range users(ia) {
					if st, ok := u2.(*ssa.Store); ok && st.Addr == ssa.Value(ia) {
						first = st.Val
					}
				}
			}
			if mi, ok := first.(*ssa.MakeInterface); ok {
				first = mi.X
			}
			if first == nil {
				continue
			}
			// only references to a model.Type's import are judged: the operand is read from a Type / Import / Package
			src := valueSource(first)
			if !(strings.HasSuffix(src, ".ImportName") || strings.Contains(src, ".Import") || strings.Contains(src, ".Package")) {
				continue
			}
			k++
			n++
			key := fmt.Sprintf("%s/qualifier#%d", fnKey(fn), k)
			if ld, ok := first.(*ssa.UnOp); ok && ld.Op == token.MUL && strings.HasSuffix(src, ".ImportName") {
				r.OK(key, call.Pos(), "qualified with Type.ImportName")
			} else {
				r.Bad(key, call.Pos(), "a reference to an imported type is qualified with %s instead of Type.ImportName: for an aliased import (import ( lib `pkg` )) the emitted identifier is not the name the import line binds - the schema is accepted and the generated package does not compile ('undefined: pkg')", strings.TrimPrefix(src, "."))
			}
		}
	}
	if n == 0 {
		r.Unk("internal/lang/generator/qualifiers", 0, "anchor lost: no qualified type reference found")
	}
}
