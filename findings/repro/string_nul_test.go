package exp

import (
	"fmt"
	"testing"

	"github.com/basecomplextech/baselibrary/buffer"
	"github.com/basecomplextech/spec"
)

func TestD15(t *testing.T) {
	buf := buffer.New()
	p := buf.Grow(64)
	for i := range p {
		p[i] = 0xee
	}
	buf.Reset()
	spec.EncodeString(buf, "ab")
	fmt.Printf("D15 EncodeString into reused buffer: % x\n", buf.Bytes())
	s, n, err := spec.DecodeString(buf.Bytes())
	fmt.Println("   decoded:", s, n, err)

	// through the writer API with a reused buffer
	buf.Reset()
	w := spec.NewWriterBuffer(buf)
	m := w.Message()
	m.Field(1).String("hi")
	b, err := m.Build()
	fmt.Printf("D15 writer reused buffer: % x %v\n", b, err)
	b2 := func() []byte {
		w := spec.NewWriter()
		m := w.Message()
		m.Field(1).String("hi")
		b, _ := m.Build()
		return b
	}()
	fmt.Printf("D15 writer fresh buffer : % x\n", b2)
}
