package exp

import (
	"fmt"
	"runtime"
	"sync"
	"sync/atomic"
	"testing"
	"time"

	"github.com/basecomplextech/baselibrary/async"
	"github.com/basecomplextech/baselibrary/logging"
	"github.com/basecomplextech/baselibrary/status"
	"github.com/basecomplextech/spec/mpx"
)

type quiet struct{ logging.Logger }

func TestD14(t *testing.T) {
	s := startServer(t, func(ctx mpx.Context, ch mpx.Channel) status.Status { return status.OK })
	ctx := async.NoContext()
	bad := 0
	total := 0
	for iter := 0; iter < 300 && bad == 0; iter++ {
		conn, st := mpx.Connect(ctx, s.Address(), logging.Null, mpx.Default())
		if !st.OK() {
			t.Fatal(st)
		}
		// wait handshake
		ch, st := conn.Channel(ctx)
		if st.OK() {
			ch.Free()
		}

		type rec struct {
			called atomic.Bool
			ok     bool
		}
		var mu sync.Mutex
		var recs []*rec
		var wg sync.WaitGroup
		stop := atomic.Bool{}
		for g := 0; g < 12; g++ {
			wg.Add(1)
			go func() {
				defer wg.Done()
				var local []*rec
				for !stop.Load() {
					r := &rec{}
					_, ok := conn.OnClosed(func() { r.called.Store(true) })
					r.ok = ok
					local = append(local, r)
					if !ok && len(local) > 3 {
						// a few more after close then stop
						break
					}
				}
				mu.Lock()
				recs = append(recs, local...)
				mu.Unlock()
			}()
		}
		runtime.Gosched()
		time.Sleep(time.Duration(iter%5) * 100 * time.Microsecond)
		conn.Close()
		<-conn.Closed().Wait()
		time.Sleep(2 * time.Millisecond)
		stop.Store(true)
		wg.Wait()
		time.Sleep(2 * time.Millisecond)
		for _, r := range recs {
			total++
			if !r.ok && r.called.Load() {
				bad++
			}
			if r.ok && !r.called.Load() {
				fmt.Println("registered ok but never called!")
			}
		}
	}
	fmt.Println("D14 registrations:", total, "reported-closed-but-invoked:", bad)
}
