package exp

import (
	"fmt"
	"math"
	"testing"

	"github.com/basecomplextech/baselibrary/buffer"
	"github.com/basecomplextech/spec"
)

func try(name string, f func()) {
	defer func() {
		if e := recover(); e != nil {
			fmt.Printf("PANIC %s: %v\n", name, e)
		}
	}()
	f()
	fmt.Printf("ok    %s\n", name)
}

func TestAll(t *testing.T) {
	try("D1 ParseValue[200,90]", func() { spec.ParseValue([]byte{200, 90}) })
	try("D2 DecodeString[0,60]", func() { spec.DecodeString([]byte{0, 60}) })
	try("D3 ParseList nonmonotonic", func() {
		// list: data 4 bytes, table 2 elems small: offsets 3,1 ; dataSize=4; tableSize=4; type 70
		b := []byte{1, 1, 1, 1, 0, 3, 0, 1, 4, 4, 70}
		_, _, err := spec.ParseList(b)
		fmt.Println("   err", err)
	})
	try("D4 truncated varint", func() {
		v, n, err := spec.DecodeInt32([]byte{0xfd, 11})
		fmt.Println("   DecodeInt32 trunc:", v, n, err)
		_, n2, err2 := spec.DecodeTypeSize([]byte{0xfd, 11})
		fmt.Println("   DecodeTypeSize trunc:", n2, err2)
		_, n3, err3 := spec.ParseValue([]byte{0xfd, 11})
		fmt.Println("   ParseValue trunc:", n3, err3)
		_, n4, err4 := spec.DecodeTypeSize([]byte{0xfd, 90})
		fmt.Println("   DecodeTypeSize struct trunc:", n4, err4)
	})
	try("D5 float32 inf", func() {
		buf := buffer.New()
		spec.EncodeFloat32(buf, float32(math.Inf(1)))
		v, n, err := spec.DecodeFloat32(buf.Bytes())
		fmt.Println("   ", v, n, err)
	})
	try("D6 Free after fail", func() {
		w := spec.NewWriter()
		l := w.List()
		m := w.Message()
		_ = m
		l.Int32(1) // invalid: top is message
		fmt.Println("   err:", w.Err())
		w.Free()
	})
	try("D6b double Free", func() {
		w := spec.NewWriter()
		m := w.Message()
		m.Field(1).Int32(1)
		m.Build()
		w.Free()
		w.Free()
	})
	try("D6c double Build on message writer", func() {
		m := spec.NewMessageWriter()
		m.Field(1).Int32(1)
		_, err := m.Build()
		fmt.Println("   build1", err)
		_, err = m.Build()
		fmt.Println("   build2", err)
	})
	try("D6d End after Build via ListWriter (pooled)", func() {
		l := spec.NewListWriter()
		l.Int32(1)
		_, err := l.Build()
		fmt.Println("   build1", err)
		_, err = l.Build()
		fmt.Println("   build2", err)
		err = l.Int32(3)
		fmt.Println("   add", err)
	})
}
