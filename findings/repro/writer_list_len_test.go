package writer

// D20 (C12): writer.listLen() addresses the element table of the innermost open list with the entry's `start`
// (offset of the list's data in the output buffer) instead of its `tableStart` (offset in the element-table stack).
// The two coincide only for a root list in an empty buffer. For any other list ListWriter.Len() returns a wrong
// count or panics with "slice bounds out of range", although the program uses the writer correctly.
//
// Copy into internal/writer and run:  go test -run TestD20 ./internal/writer

import (
	"testing"

	"github.com/basecomplextech/baselibrary/buffer"
)

func TestD20_Len_of_a_nested_list(t *testing.T) {
	w := NewBuffer(buffer.New(), false)
	m := w.Message()
	if err := m.Field(1).String("a string of more than a few bytes, so that the list does not start at offset 0"); err != nil {
		t.Fatal(err)
	}
	l := m.Field(2).List()
	for i := 0; i < 3; i++ {
		if err := l.Int32(int32(i)); err != nil {
			t.Fatal(err)
		}
	}
	func() {
		defer func() {
			if e := recover(); e != nil {
				t.Fatalf("ListWriter.Len() panicked on a correctly used nested list: %v", e)
			}
		}()
		if n := l.Len(); n != 3 {
			t.Fatalf("ListWriter.Len() = %d after writing 3 elements", n)
		}
	}()
}

func TestD20_Len_of_a_root_list_in_a_used_buffer(t *testing.T) {
	buf := buffer.New()
	buf.Write([]byte("previous message bytes"))
	w := NewBuffer(buf, false)
	l := w.List()
	l.Bool(true)
	l.Bool(false)
	func() {
		defer func() {
			if e := recover(); e != nil {
				t.Fatalf("ListWriter.Len() panicked: %v", e)
			}
		}()
		if n := l.Len(); n != 2 {
			t.Fatalf("ListWriter.Len() = %d after writing 2 elements", n)
		}
	}()
}
