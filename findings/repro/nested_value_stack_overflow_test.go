package spec

import (
	"os"
	"os/exec"
	"strings"
	"testing"
)

// A value nested a few million levels deep is a well-formed input of ~20 MB. ParseValue recurses once per level
// (ParseValue -> ParseList -> ParseValue): the goroutine stack exceeds the runtime's 1 GB limit, which is a fatal
// error no recover can stop - the process dies. mpx reads a frame of any size the 4-byte prefix announces
// (connReader.read) and runs ParseMessage on it before looking at its code.
func TestNestedValueKillsTheProcess(t *testing.T) {
	if os.Getenv("NESTED_CHILD") == "1" {
		depth := 4_000_000
		w := NewWriter()
		lists := make([]ListWriter, 0, depth)
		l := w.List()
		lists = append(lists, l)
		for i := 1; i < depth; i++ {
			l = l.List()
			lists = append(lists, l)
		}
		for i := len(lists) - 1; i >= 1; i-- {
			if err := lists[i].End(); err != nil {
				t.Fatal(err)
			}
		}
		b, err := lists[0].Build()
		if err != nil {
			t.Fatal(err)
		}
		t.Logf("input: %d bytes", len(b))
		_, _, err = ParseValue(b)
		t.Logf("parsed, err=%v", err)
		return
	}
	cmd := exec.Command(os.Args[0], "-test.run=TestNestedValueKillsTheProcess", "-test.v")
	cmd.Env = append(os.Environ(), "NESTED_CHILD=1")
	out, err := cmd.CombinedOutput()
	s := string(out)
	if len(s) > 600 {
		s = s[:300] + " ... " + s[len(s)-300:]
	}
	if err != nil && strings.Contains(string(out), "stack overflow") {
		t.Fatalf("the child process died with a fatal stack overflow while parsing a well-formed nested value:\n%s", s)
	}
	t.Logf("child survived: err=%v\n%s", err, s)
}
