package mpx

import (
	"io"
	"net"
	"sync/atomic"
	"testing"
	"time"

	"github.com/basecomplextech/baselibrary/bin"
	"github.com/basecomplextech/baselibrary/logging"
	"github.com/basecomplextech/baselibrary/status"
	"github.com/basecomplextech/spec/proto/pmpx"
)

// d27BlockingCallback is a context callback which blocks the caller until released.
type d27BlockingCallback struct {
	entered chan struct{}
	release chan struct{}
}

func (c *d27BlockingCallback) OnCancelled(status.Status) {
	close(c.entered)
	<-c.release
}

// TestD27_handler_context_is_cancelled_for_channel_opened_behind_the_sweep
//
// Sequence:
//
//  1. the peer opens channel X, its handler adds a (slow) callback to its context;
//  2. the peer sends [close X][open Y] in one write, the receive loop handles close X
//     and is delayed inside the callback of X, open Y is still buffered;
//  3. the server side closes the connection with Conn.Close();
//  4. the callback returns, the receive loop hands the buffered channel Y to the handler;
//  5. the connection is closed: the context of Y must be cancelled.
func TestD27_handler_context_is_cancelled_for_channel_opened_behind_the_sweep(t *testing.T) {
	logger := logging.TestLogger(t)
	opts := Default()

	cb := &d27BlockingCallback{
		entered: make(chan struct{}),
		release: make(chan struct{}),
	}
	finish := make(chan struct{})
	defer close(finish)

	var calls atomic.Int32
	xReady := make(chan struct{})
	yCtx := make(chan Context, 16)

	zReady := make(chan struct{})
	zSend := make(chan struct{})
	handler := HandleFunc(func(ctx Context, ch Channel) status.Status {
		n := calls.Add(1)
		switch n {
		case 1:
			// Channel Z: writes to the peer when told to
			close(zReady)
			select {
			case <-zSend:
			case <-finish:
				return status.OK
			}
			for i := 0; i < 64; i++ {
				if st := ch.Send(ctx, make([]byte, 1024)); !st.OK() {
					break
				}
			}
			<-finish
			return status.OK
		case 2:
			// Channel X
			ctx.AddCallback(cb)
			close(xReady)
			<-finish
			return status.OK
		}

		// Channel Y (or any other)
		yCtx <- ctx
		select {
		case <-ctx.Wait():
		case <-finish:
		}
		return status.OK
	})

	// Server connection over an in-memory pipe
	serverEnd, peerEnd := net.Pipe()
	defer peerEnd.Close()

	sconn := newConn(serverEnd, false /* server */, noopConnDelegate{}, handler, logger, opts)
	runDone := make(chan struct{})
	go func() {
		defer close(runDone)
		sconn.run()
	}()

	// Raw peer, handshake without compression
	w := newConnWriter(peerEnd, true, 32*1024)
	r := newConnReader(peerEnd, true, 32*1024)

	if st := w.writeLine(ProtocolLine); !st.OK() {
		t.Fatal(st)
	}
	req, err := pmpx.NewConnectInput().Build()
	if err != nil {
		t.Fatal(err)
	}
	if st := w.writeAndFlush(req); !st.OK() {
		t.Fatal(st)
	}
	if _, st := r.readLine(); !st.OK() {
		t.Fatal(st)
	}
	resp, st := r.readResponse()
	if !st.OK() {
		t.Fatal(st)
	}
	if !resp.Ok() {
		t.Fatal("handshake refused")
	}
	drained := make(chan struct{})
	go func() { io.Copy(io.Discard, peerEnd); close(drained) }()

	idX := bin.Random128()
	idY := bin.Random128()

	// 0. Open Z
	idZ := bin.Random128()
	{
		msg, err := pmpx.BuildChannelOpen(pmpx.NewMessageWriter(), idZ, []byte("z"), 1<<20)
		if err != nil {
			t.Fatal(err)
		}
		if st := w.writeAndFlush(msg); !st.OK() {
			t.Fatal(st)
		}
	}
	select {
	case <-zReady:
	case <-time.After(2 * time.Second):
		t.Fatal("channel Z was not handed to the handler")
	}

	// 1. Open X
	{
		msg, err := pmpx.BuildChannelOpen(pmpx.NewMessageWriter(), idX, []byte("x"), 1<<20)
		if err != nil {
			t.Fatal(err)
		}
		if st := w.writeAndFlush(msg); !st.OK() {
			t.Fatal(st)
		}
	}
	select {
	case <-xReady:
	case <-time.After(2 * time.Second):
		t.Fatal("channel X was not handed to the handler")
	}

	// 2. [close X][open Y] in a single write
	{
		msg, err := pmpx.BuildChannelClose(pmpx.NewMessageWriter(), idX, nil)
		if err != nil {
			t.Fatal(err)
		}
		if st := w.write(msg); !st.OK() {
			t.Fatal(st)
		}
		msg, err = pmpx.BuildChannelOpen(pmpx.NewMessageWriter(), idY, []byte("y"), 1<<20)
		if err != nil {
			t.Fatal(err)
		}
		if st := w.write(msg); !st.OK() {
			t.Fatal(st)
		}
		if st := w.flush(); !st.OK() {
			t.Fatal(st)
		}
	}
	select {
	case <-cb.entered:
	case <-time.After(2 * time.Second):
		t.Fatal("context of X was not cancelled by the peer close")
	}

	// 3. The peer hangs up and the server tries to write: the send loop fails first, while the receive loop is
	// still busy with frames it has already buffered. (listeners run at the very end of the internal close)
	notified := make(chan struct{})
	if _, ok := sconn.OnClosed(func() { close(notified) }); !ok {
		t.Fatal("connection already closed")
	}
	peerEnd.Close()
	close(zSend)
	select {
	case <-notified:
	case <-time.After(2 * time.Second):
		t.Fatal("connection did not shut down after the write failure")
	}

	// 4. Let the receive loop continue
	close(cb.release)

	// 5. The connection stops
	select {
	case <-runDone:
	case <-time.After(2 * time.Second):
		t.Fatal("connection did not stop")
	}
	if !sconn.Closed().IsSet() {
		t.Fatal("connection not closed")
	}

	// Either channel Y was refused (the connection had already swept its channels), or it was handed to the handler
	// and then its context must be cancelled - a handler must not be left waiting on a dead connection.
	select {
	case ctxY := <-yCtx:
		select {
		case <-ctxY.Wait():
		case <-time.After(2 * time.Second):
			t.Fatal("connection is closed, but the handler context of channel Y is not cancelled")
		}
	case <-time.After(500 * time.Millisecond):
	}
	_ = drained
}
