package exp

import (
	"fmt"
	"sync"
	"testing"
	"time"

	"github.com/basecomplextech/baselibrary/async"
	"github.com/basecomplextech/baselibrary/logging"
	"github.com/basecomplextech/baselibrary/status"
	"github.com/basecomplextech/spec/mpx"
)

func TestD8b(t *testing.T) {
	s := startServer(t, func(ctx mpx.Context, ch mpx.Channel) status.Status {
		return status.OK // return immediately, client keeps sending
	})
	ctx := async.NoContext()
	conn, st := mpx.Connect(ctx, s.Address(), logging.Stdout, mpx.Default())
	if !st.OK() {
		t.Fatal(st)
	}
	defer conn.Free()

	start := time.Now()
	var wg sync.WaitGroup
	for g := 0; g < 8; g++ {
		wg.Add(1)
		go func() {
			defer wg.Done()
			for i := 0; i < 500; i++ {
				ch, st := conn.Channel(ctx)
				if !st.OK() {
					return
				}
				for j := 0; j < 50; j++ {
					if st := ch.Send(ctx, make([]byte, 100)); !st.OK() {
						break
					}
				}
				ch.Free()
			}
		}()
	}
	wg.Wait()
	time.Sleep(100 * time.Millisecond)
	fmt.Println("D8b: closed:", conn.Closed().IsSet(), "after", time.Since(start))
}
