package exp

import (
	"bufio"
	"fmt"
	"io"
	"net"
	"sync/atomic"
	"testing"
	"time"

	"github.com/basecomplextech/baselibrary/async"
	"github.com/basecomplextech/baselibrary/bin"
	"github.com/basecomplextech/baselibrary/logging"
	"github.com/basecomplextech/baselibrary/status"
	"github.com/basecomplextech/spec/mpx"
	"github.com/basecomplextech/spec/proto/pmpx"
)

func startServer(t *testing.T, h mpx.HandleFunc) mpx.Server {
	logger := logging.Stdout
	s := mpx.NewServer("localhost:0", h, logger, mpx.Default())
	s.Start()
	select {
	case <-s.Listening().Wait():
	case <-time.After(time.Second):
		t.Fatal("not listening")
	}
	t.Cleanup(func() { <-s.Stop() })
	return s
}

// D8: server handler returns while client is still sending
func TestD8(t *testing.T) {
	s := startServer(t, func(ctx mpx.Context, ch mpx.Channel) status.Status {
		ch.Receive(ctx)
		return status.OK // return immediately, client keeps sending
	})
	ctx := async.NoContext()
	conn, st := mpx.Connect(ctx, s.Address(), logging.Stdout, mpx.Default())
	if !st.OK() {
		t.Fatal(st)
	}
	defer conn.Free()

	closedAfter := -1
	for i := 0; i < 2000; i++ {
		ch, st := conn.Channel(ctx)
		if !st.OK() {
			closedAfter = i
			fmt.Println("channel open failed:", st)
			break
		}
		for j := 0; j < 20; j++ {
			if st := ch.Send(ctx, []byte("hello world")); !st.OK() {
				break
			}
		}
		ch.Free()
		if conn.Closed().IsSet() {
			closedAfter = i
			break
		}
	}
	fmt.Println("D8: connection closed after channels:", closedAfter, "closed:", conn.Closed().IsSet())
}

// D9: client offers no supported version: server must refuse and not serve
func TestD9(t *testing.T) {
	var handled atomic.Int32
	s := startServer(t, func(ctx mpx.Context, ch mpx.Channel) status.Status {
		handled.Add(1)
		return status.OK
	})

	nc, err := net.Dial("tcp", s.Address())
	if err != nil {
		t.Fatal(err)
	}
	defer nc.Close()
	r := bufio.NewReader(nc)

	write := func(msg pmpx.Message) {
		b := msg.Unwrap().Raw()
		head := []byte{byte(len(b) >> 24), byte(len(b) >> 16), byte(len(b) >> 8), byte(len(b))}
		nc.Write(head)
		nc.Write(b)
	}
	nc.Write([]byte(mpx.ProtocolLine))
	req, _ := pmpx.BuildConnectRequest(pmpx.ConnectInput{Versions: []pmpx.Version{99}})
	write(req)

	line, _ := r.ReadString('\n')
	fmt.Printf("D9 line %q\n", line)
	head := make([]byte, 4)
	io.ReadFull(r, head)
	n := int(head[0])<<24 | int(head[1])<<16 | int(head[2])<<8 | int(head[3])
	body := make([]byte, n)
	io.ReadFull(r, body)
	resp, _, _ := pmpx.ParseMessage(body)
	fmt.Println("D9 response ok:", resp.ConnectResponse().Ok(), "error:", resp.ConnectResponse().Error())

	// now open a channel anyway
	id := bin.Random128()
	w := pmpx.NewMessageWriter()
	open, _ := pmpx.BuildChannelOpen(w, id, []byte("x"), 1000)
	write(open)
	time.Sleep(300 * time.Millisecond)
	fmt.Println("D9 handler invocations after refusal:", handled.Load())
}
