package writer

// D18 (C18): writer.Free() on a pooled writer reads w.writerState / w.releaseState / w.releaseWriter after
// close() has already put w back into writerPool. Another goroutine that acquires the writer in between
// writes exactly those fields (acquireWriter: w.Reset, w.releaseWriter = true) -> unsynchronised access.
//
// Copy into internal/writer and run:  go test -race -run TestD18 ./internal/writer
// Before the fix the race detector reports a DATA RACE (read in (*writer).Free, write in acquireWriter/Reset).

import (
	"sync"
	"testing"

	"github.com/basecomplextech/baselibrary/buffer"
)

func TestD18_Free_pooled_writer_does_not_touch_it_after_release(t *testing.T) {
	var wg sync.WaitGroup
	for g := 0; g < 8; g++ {
		wg.Add(1)
		go func() {
			defer wg.Done()
			buf := buffer.New()
			for i := 0; i < 20000; i++ {
				buf.Reset()
				w := Acquire(buf)
				m := w.Message()
				m.Field(1).Int32(int32(i))
				// abandon the message half way and free the pooled writer
				w.Free()
			}
		}()
	}
	wg.Wait()
}
