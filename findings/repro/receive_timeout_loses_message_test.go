package mpx

import (
	"bytes"
	"fmt"
	"net"
	"sync"
	"testing"
	"time"

	"github.com/basecomplextech/baselibrary/async"
	"github.com/basecomplextech/baselibrary/status"
	"github.com/basecomplextech/baselibrary/units"
)

// d28GatedConn is a net.Conn, whose writes can be paused, as if the peer/network were slow.
type d28GatedConn struct {
	net.Conn

	mu   sync.Mutex
	gate chan struct{} // nil when open
}

func (g *d28GatedConn) pause() {
	g.mu.Lock()
	defer g.mu.Unlock()
	if g.gate == nil {
		g.gate = make(chan struct{})
	}
}

func (g *d28GatedConn) resume() {
	g.mu.Lock()
	defer g.mu.Unlock()
	if g.gate != nil {
		close(g.gate)
		g.gate = nil
	}
}

func (g *d28GatedConn) Write(p []byte) (int, error) {
	g.mu.Lock()
	gate := g.gate
	g.mu.Unlock()

	if gate != nil {
		<-gate
	}
	return g.Conn.Write(p)
}

// The receiver reads a channel while its own outgoing direction is congested (the connection
// write queue is full). One of the Receive calls is made with a context which times out
// while the receiver is blocked sending its window update. No message may disappear from the received sequence:
// a failed Receive may return an error, but the next Receive must continue where it stopped.
func TestD28_Receive_must_not_lose_a_message_when_its_context_times_out(t *testing.T) {
	const (
		num  = 4
		size = 200
	)

	sent := make([][]byte, num)
	for i := range sent {
		sent[i] = bytes.Repeat([]byte{byte('a' + i)}, size)
	}

	done := make(chan struct{})
	defer close(done)
	sentAll := make(chan struct{})

	// Server sends messages on the first channel, and ignores other channels
	handle := func(ctx Context, ch Channel) status.Status {
		msg, st := ch.Receive(ctx)
		if !st.OK() {
			return st
		}
		if string(msg) != "go" {
			<-done
			return status.OK
		}

		for _, m := range sent {
			if st := ch.Send(ctx, m); !st.OK() {
				return st
			}
		}
		close(sentAll)

		// Keep channel open
		<-done
		return status.OK
	}
	server := testServer(t, handle)

	// Client connection with a small window and a tiny write queue
	opts := Default()
	opts.Compression = false
	opts.ChannelWindowSize = units.Bytes(1000) // all messages fit, window/2 reached on 3rd message
	opts.WriteQueueSize = units.Bytes(1)
	opts = opts.clean()

	nc, err := net.Dial("tcp", server.Address())
	if err != nil {
		t.Fatal(err)
	}
	gc := &d28GatedConn{Conn: nc}
	handler := HandleFunc(func(_ Context, ch Channel) status.Status { return status.OK })
	conn := newConn(gc, true /* client */, noopConnDelegate{}, handler, server.logger, opts)
	go conn.run()
	defer conn.Free()
	defer gc.resume()

	noctx := async.NoContext()
	ch := testChannel(t, conn)
	defer ch.Free()

	if st := ch.Send(noctx, []byte("go")); !st.OK() {
		t.Fatal(st)
	}
	select {
	case <-sentAll:
	case <-time.After(5 * time.Second):
		t.Fatal("server send timeout")
	}
	time.Sleep(100 * time.Millisecond) // let messages arrive

	// Congest the outgoing direction: pause network writes, fill the write queue
	gc.pause()
	filler := testChannel(t, conn)
	defer filler.Free()

	full := false
	for i := 0; i < 100; i++ {
		ctx := async.NewContext()
		timer := time.AfterFunc(100*time.Millisecond, ctx.Cancel)
		st := filler.Send(ctx, []byte("filler"))
		timer.Stop()
		ctx.Free()

		if st.Code == status.CodeCancelled {
			full = true
			break
		}
		if !st.OK() {
			t.Fatal(st)
		}
	}
	if !full {
		t.Fatal("cannot fill write queue")
	}

	// Receive all messages, every Receive has its own cancellable context
	var received [][]byte
	var errors []string

	for i := 0; len(received) < num && i < 20; i++ {
		ctx := async.TimeoutContext(100 * time.Millisecond)
		msg, st := ch.Receive(ctx)
		ctx.Free()

		switch {
		case st.OK():
			received = append(received, bytes.Clone(msg))
		case st.Code == status.CodeTimeout:
			// Timed out, uncongest and retry
			errors = append(errors, fmt.Sprintf("receive %d: %v", i, st))
			gc.resume()
		default:
			t.Fatalf("receive %d: unexpected status %v", i, st)
		}
	}

	gc.resume()

	// Check
	if len(received) != num {
		var got []string
		for _, m := range received {
			got = append(got, string(m[:1]))
		}
		t.Fatalf("received %d messages of %d (a message was lost), got=%v, expected=[a b c d], errors=%v",
			len(received), num, got, errors[:min(len(errors), 2)])
	}
	for i := range sent {
		if !bytes.Equal(sent[i], received[i]) {
			t.Fatalf("message %d: expected %q..., got %q..., message lost; errors=%v",
				i, sent[i][:4], received[i][:4], errors)
		}
	}
}
