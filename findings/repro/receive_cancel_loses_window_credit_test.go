package mpx

import (
	"bytes"
	"fmt"
	"net"
	"sync"
	"testing"
	"time"

	"github.com/basecomplextech/baselibrary/async"
	"github.com/basecomplextech/baselibrary/status"
	"github.com/basecomplextech/baselibrary/units"
)

// d29GatedConn is a net.Conn, whose writes can be paused, as if the peer/network were slow.
type d29GatedConn struct {
	net.Conn

	mu   sync.Mutex
	gate chan struct{} // nil when open
}

func (g *d29GatedConn) pause() {
	g.mu.Lock()
	defer g.mu.Unlock()
	if g.gate == nil {
		g.gate = make(chan struct{})
	}
}

func (g *d29GatedConn) resume() {
	g.mu.Lock()
	defer g.mu.Unlock()
	if g.gate != nil {
		close(g.gate)
		g.gate = nil
	}
}

func (g *d29GatedConn) Write(p []byte) (int, error) {
	g.mu.Lock()
	gate := g.gate
	g.mu.Unlock()

	if gate != nil {
		<-gate
	}
	return g.Conn.Write(p)
}

// The receiver reads a channel while its own outgoing direction is congested (the connection
// write queue is full). One of the Receive calls is made with a context which is cancelled
// while the receiver is blocked. No message may disappear from the received sequence:
// a failed Receive may return an error, but the next Receive must continue where it stopped.
func TestD29_window_credit_must_survive_a_cancelled_Receive(t *testing.T) {
	const (
		num  = 10 // 2000 bytes in all, twice the window: the sender depends on window updates
		size = 200
	)

	sent := make([][]byte, num)
	for i := range sent {
		sent[i] = bytes.Repeat([]byte{byte('a' + i)}, size)
	}

	done := make(chan struct{})
	defer close(done)
	sentAll := make(chan struct{})

	// Server sends messages on the first channel, and ignores other channels
	handle := func(ctx Context, ch Channel) status.Status {
		msg, st := ch.Receive(ctx)
		if !st.OK() {
			return st
		}
		if string(msg) != "go" {
			<-done
			return status.OK
		}

		for _, m := range sent {
			if st := ch.Send(ctx, m); !st.OK() {
				return st
			}
		}
		close(sentAll)

		// Keep channel open
		<-done
		return status.OK
	}
	server := testServer(t, handle)

	// Client connection with a small window and a tiny write queue
	opts := Default()
	opts.Compression = false
	opts.ChannelWindowSize = units.Bytes(1000) // all messages fit, window/2 reached on 3rd message
	opts.WriteQueueSize = units.Bytes(1)
	opts = opts.clean()

	nc, err := net.Dial("tcp", server.Address())
	if err != nil {
		t.Fatal(err)
	}
	gc := &d29GatedConn{Conn: nc}
	handler := HandleFunc(func(_ Context, ch Channel) status.Status { return status.OK })
	conn := newConn(gc, true /* client */, noopConnDelegate{}, handler, server.logger, opts)
	go conn.run()
	defer conn.Free()
	defer gc.resume()

	noctx := async.NoContext()
	ch := testChannel(t, conn)
	defer ch.Free()

	if st := ch.Send(noctx, []byte("go")); !st.OK() {
		t.Fatal(st)
	}
	time.Sleep(300 * time.Millisecond) // let the first window of messages arrive

	// Congest the outgoing direction: pause network writes, fill the write queue
	gc.pause()
	filler := testChannel(t, conn)
	defer filler.Free()

	full := false
	for i := 0; i < 100; i++ {
		ctx := async.NewContext()
		timer := time.AfterFunc(100*time.Millisecond, ctx.Cancel)
		st := filler.Send(ctx, []byte("filler"))
		timer.Stop()
		ctx.Free()

		if st.Code == status.CodeCancelled {
			full = true
			break
		}
		if !st.OK() {
			t.Fatal(st)
		}
	}
	if !full {
		t.Fatal("cannot fill write queue")
	}

	// Receive: the first three calls have their own cancellable context while the outgoing direction is congested;
	// the third one crosses window/2 and tries to send the window update, which cannot be written in time.
	var received [][]byte
	var errors []string
	for i := 0; i < 3; i++ {
		ctx := async.NewContext()
		timer := time.AfterFunc(100*time.Millisecond, ctx.Cancel)
		msg, st := ch.Receive(ctx)
		timer.Stop()
		ctx.Free()
		switch {
		case st.OK():
			received = append(received, bytes.Clone(msg))
		case st.Code == status.CodeCancelled:
			errors = append(errors, fmt.Sprintf("receive %d: %v", i, st))
		default:
			t.Fatalf("receive %d: unexpected status %v", i, st)
		}
	}
	// The congestion ends; the receiver keeps consuming: every message must arrive
	gc.resume()
	for len(received) < num {
		ctx := async.TimeoutContext(2 * time.Second)
		msg, st := ch.Receive(ctx)
		ctx.Free()
		if st.Code == status.CodeTimeout {
			t.Fatalf("deadlock: the receiver consumed everything it got (%d of %d messages) and waits for data, the sender waits for a window update that was lost; errors=%v", len(received), num, errors)
		}
		if !st.OK() {
			t.Fatalf("receive: unexpected status %v", st)
		}
		received = append(received, bytes.Clone(msg))
	}

	// Check
	if len(received) != num {
		var got []string
		for _, m := range received {
			got = append(got, string(m[:1]))
		}
		t.Fatalf("received %d messages of %d (a message was lost), got=%v, expected=[a..j], errors=%v",
			len(received), num, got, errors[:min(len(errors), 2)])
	}
	for i := range sent {
		if !bytes.Equal(sent[i], received[i]) {
			t.Fatalf("message %d: expected %q..., got %q..., message lost; errors=%v",
				i, sent[i][:4], received[i][:4], errors)
		}
	}
}
