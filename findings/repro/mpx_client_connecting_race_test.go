package exp

import (
	"testing"
	"time"

	"github.com/basecomplextech/baselibrary/logging"
	"github.com/basecomplextech/spec/mpx"
)

func TestD17(t *testing.T) {
	for i := 0; i < 20; i++ {
		c := mpx.NewClient("127.0.0.1:1", mpx.ClientMode_AutoConnect, logging.Null, mpx.Default())
		time.Sleep(5 * time.Millisecond)
		c.Close()
	}
}
