package parser

// D19 (C15): the lexer's default case returns the scanned rune itself as the token number. goyacc numbers the
// grammar's named tokens from 57346 (U+E002) upwards - inside Unicode's private-use area - so a source text that
// contains such a rune is not rejected: the parser takes U+E00B for IDENT, U+E00C for INTEGER, U+E00D for STRING,
// U+E002..U+E00A for the keywords, each carrying whatever value the previous real token left in lval.
//
// Copy into internal/lang/parser and run:  go test -run TestD19 ./internal/lang/parser
// Before the fix the first test parses `a  1` as the field "a" of type "a" with tag 1 and reports no error.

import (
	"fmt"
	"testing"
)

func TestD19_private_use_rune_is_not_a_token(t *testing.T) {
	for r := rune(0xE000); r <= 0xE010; r++ {
		src := fmt.Sprintf("message A {\n\ta %c 1;\n}\n", r)
		file, err := New().Parse(src)
		if err == nil {
			t.Errorf("U+%04X accepted in place of a type name: parsed %d definition(s) without error", r, len(file.Definitions))
		}
	}
}

func TestD19_private_use_rune_in_place_of_tag(t *testing.T) {
	// U+E00C is the INTEGER token: the tag silently becomes the previous integer (here: none -> 0 / stale)
	src := "message A {\n\ta int32 1;\n\tb int32 ;\n}\n"
	if _, err := New().Parse(src); err == nil {
		t.Errorf("U+E00C accepted in place of a field tag")
	}
}
