package exp

import (
	"fmt"
	"testing"

	"github.com/basecomplextech/baselibrary/buffer"
	"github.com/basecomplextech/spec"
)

func TestD7(t *testing.T) {
	// 1. pooled writer (generated-code path) fails midway
	buf := buffer.New()
	m := spec.NewMessageWriterBuffer(buf)
	_ = m.Field(1).List()
	err := m.Field(2).Int32(1) // misuse: list still open
	fmt.Println("pooled writer failed:", err)

	// 2. explicitly owned writer
	w := spec.NewWriter()
	mw := w.Message()
	mw.Field(1).Int32(7)
	b, err := mw.Build()
	fmt.Println("owned build:", b, err, "Err() after build:", w.Err())

	// 3. pooled acquire now returns the user's writer
	m2 := spec.NewMessageWriterBuffer(buffer.New())
	fmt.Println("same writer handed out by pool:", m2.Unwrap() == w)
}
