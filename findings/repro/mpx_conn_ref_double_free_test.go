package exp

import (
	"fmt"
	"sync"
	"sync/atomic"
	"testing"
	"time"

	"github.com/basecomplextech/baselibrary/async"
	"github.com/basecomplextech/baselibrary/logging"
	"github.com/basecomplextech/baselibrary/status"
	"github.com/basecomplextech/spec/mpx"
)

// candidate: closeChannels (Range+free) racing with sendHandle (Delete+free)
func TestD16(t *testing.T) {
	s := startServer(t, func(ctx mpx.Context, ch mpx.Channel) status.Status {
		ch.Receive(ctx)
		return status.OK
	})
	ctx := async.NoContext()
	var panics atomic.Int32
	var msgs sync.Map
	for iter := 0; iter < 400; iter++ {
		conn, st := mpx.Connect(ctx, s.Address(), logging.Null, mpx.Default())
		if !st.OK() {
			t.Fatal(st)
		}
		var wg sync.WaitGroup
		for g := 0; g < 8; g++ {
			wg.Add(1)
			go func() {
				defer wg.Done()
				for i := 0; i < 200; i++ {
					func() {
						defer func() {
							if e := recover(); e != nil {
								panics.Add(1)
								msgs.Store(fmt.Sprint(e), true)
							}
						}()
						ch, st := conn.Channel(ctx)
						if !st.OK() {
							return
						}
						ch.Send(ctx, []byte("x"))
						ch.Free()
					}()
					if conn.Closed().IsSet() {
						return
					}
				}
			}()
		}
		time.Sleep(time.Duration(iter%20) * 50 * time.Microsecond)
		conn.Close()
		wg.Wait()
	}
	msgs.Range(func(k, v any) bool { fmt.Println("panic:", k); return true })
	fmt.Println("D16 user-goroutine panics:", panics.Load())
}
