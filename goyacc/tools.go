//go:build tools

package tools

import _ "golang.org/x/tools/cmd/goyacc"
