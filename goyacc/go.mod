module goyaccbuild

go 1.23

require golang.org/x/tools v0.29.0
