#!/bin/bash
# thorough tier of one property:  ./thorough.sh <Cxx> <repo>
#  1. analyser self-test: every mutant of mutants/expect.jsonl that is expected to break this property is applied
#     to a scratch copy of the repository's HEAD tree (outside /repo and /verif, removed at once) and must be
#     reported by the expected rule; results go into the evidence (coverage.mutant_selftest). A miss is printed as
#     SELFTEST-MISS; it does not change the exit status (it says the analyser is weaker than recorded, not that
#     the repository violates the property).
#     The converse is tested too: every behaviour-preserving rewrite of refactors/<id>/patch.diff is applied the same
#     way and must leave this property's check silent (coverage.mutant_selftest.refactorings); an alarm is printed as
#     SELFTEST-FALSE-ALARM, again without changing the exit status.
#  2. the same rules on a second target (GOARCH=arm64) - must be clean as well.
#  3. the analysis of /repo's working tree, tier=thorough, evidence rewritten.
set -u
PROP=$1
REPO=${2:-/repo}
VERIF=$(cd "$(dirname "$0")" && pwd)
BIN=$VERIF/bin/specvet
export PATH=/opt/veriftools/go1.26.8/bin:$PATH
export GOTOOLCHAIN=local GOFLAGS=-mod=mod GOPROXY=off GOSUMDB=off
unset GOWORK
SCRATCH=$(mktemp -d "${TMPDIR:-/tmp}/specvet-thorough.XXXXXX")
trap 'rm -rf "$SCRATCH"' EXIT
RES=$SCRATCH/selftest.json

python3 - "$VERIF" "$PROP" "$REPO" "$SCRATCH" "$BIN" > "$RES" <<'PY'
import json, os, subprocess, sys, shutil, concurrent.futures
verif, prop, repo, scratch, binp = sys.argv[1:6]
entries = []
p = os.path.join(verif, 'mutants', 'expect.jsonl')
if os.path.exists(p):
    for l in open(p):
        l = l.strip()
        if l:
            e = json.loads(l)
            if prop in e.get('expect', {}):
                entries.append(e)
def base(dst):
    os.makedirs(dst)
    # HEAD tree of the repository (independent of uncommitted edits); fall back to a copy of the working tree
    r = subprocess.run(f"git -C {repo} archive HEAD | tar -x -C {dst}", shell=True, capture_output=True)
    if r.returncode != 0:
        subprocess.run(f"rsync -a --exclude .git {repo}/ {dst}/", shell=True)
# The analysis of one patched tree is the same for every property: it is run once for all properties and the
# non-discharged obligations are cached under /verif/.cache (key: analyser sources, repository HEAD, known
# findings, patch). The cache only saves time - a missing or stale entry is recomputed.
import hashlib
def _h(*parts):
    m = hashlib.sha256()
    for p in parts:
        m.update(p if isinstance(p, bytes) else str(p).encode())
        m.update(b'\0')
    return m.hexdigest()
def _file(p):
    try:
        return open(p, 'rb').read()
    except OSError:
        return b''
_head = subprocess.run(f"git -C {repo} rev-parse HEAD", shell=True, capture_output=True, text=True).stdout.strip()
# the analyser is identified by its sources (the binary embeds VCS stamps that change with every commit of /verif)
import glob as _glob
_src = b''.join(_file(f) for f in sorted(_glob.glob(os.path.join(verif, 'checker', '*.go')) + [os.path.join(verif, 'checker', 'go.mod')]))
_state = _h(_src, _head, _file(os.path.join(verif, 'known_findings.json')))
cache_dir = os.path.join(verif, '.cache', 'selftest')
os.makedirs(cache_dir, exist_ok=True)
def analyse(tag, patch):
    """-> ('skipped', why) | ('failed', None) | ('ok', [ {property, rule, key} ... ])  (non-discharged, not known)"""
    key = _h(_state, _file(patch))
    cf = os.path.join(cache_dir, key + '.json')
    if os.path.exists(cf):
        try:
            c = json.load(open(cf))
            return c['status'], c['data']
        except Exception:
            pass
    d = os.path.join(scratch, tag)
    try:
        base(d)
        r = subprocess.run(['git', 'apply', patch], cwd=d, capture_output=True, text=True)
        if r.returncode != 0:
            res = ('skipped', 'patch does not apply to HEAD: ' + r.stderr.strip()[:200])
        else:
            dump = os.path.join(scratch, tag + '.obs.json')
            subprocess.run([binp, '-repo', d, '-prop', 'all', '-known', os.path.join(verif, 'known_findings.json'), '-dump', dump], capture_output=True, text=True)
            if not os.path.exists(dump):
                res = ('failed', None)
            else:
                obs = json.load(open(dump))
                res = ('ok', sorted(({'property': o['property'], 'rule': o['rule'], 'key': o['key']} for o in obs if o['status'] != 'discharged' and not o.get('known_finding')), key=lambda x: (x['property'], x['rule'], x['key'])))
                os.remove(dump)
        try:
            tmpf = cf + '.%d.tmp' % os.getpid()
            json.dump({'status': res[0], 'data': res[1]}, open(tmpf, 'w'))
            os.replace(tmpf, cf)
        except OSError:
            pass
        return res
    finally:
        shutil.rmtree(d, ignore_errors=True)
def one(e):
    st, data = analyse(e['id'], os.path.join(verif, e['patch']))
    if st == 'skipped':
        return {'id': e['id'], 'status': 'skipped', 'why': data}
    fired = sorted({o['rule'] for o in (data or []) if o['property'] == prop})
    want = e['expect'][prop]
    ok = any(w in fired for w in want)
    return {'id': e['id'], 'status': 'detected' if ok else 'MISSED', 'expected_rules': want, 'fired_rules': fired, 'breaks': e.get('what', '')}
# silence test: behaviour-preserving rewrites (refactors/<id>/patch.diff, written by independent sub-agents and
# confirmed against the full suite) must not make this property's check fire
def quiet(rid):
    st, data = analyse('rf_' + rid, os.path.join(verif, 'refactors', rid, 'patch.diff'))
    if st == 'skipped':
        return {'id': rid, 'status': 'skipped', 'why': data}
    if st == 'failed':
        return {'id': rid, 'status': 'ALARM', 'fired': ['analyser could not load the rewritten tree']}
    fired = sorted({o['rule'] + ' ' + o['key'] for o in data if o['property'] == prop})
    # a rewrite on which the analyser is known to alarm wrongly (documented limitation, DESIGN.md section 7) is reported
    # as such, separately from new false alarms
    if fired and os.path.exists(os.path.join(verif, 'refactors', rid, 'KNOWN_FALSE_ALARM.txt')):
        return {'id': rid, 'status': 'KNOWN-ALARM', 'fired': fired}
    return {'id': rid, 'status': 'ALARM' if fired else 'silent', 'fired': fired}
rdir = os.path.join(verif, 'refactors')
rids = sorted(x for x in os.listdir(rdir) if os.path.exists(os.path.join(rdir, x, 'patch.diff'))) if os.path.isdir(rdir) else []
with concurrent.futures.ThreadPoolExecutor(max_workers=6) as ex:
    results = list(ex.map(one, entries))
    rres = list(ex.map(quiet, rids))
json.dump({'mutants': len(results), 'detected': sum(1 for r in results if r['status'] == 'detected'),
           'missed': [r['id'] for r in results if r['status'] == 'MISSED'], 'results': results,
           'refactorings': {'applied': sum(1 for r in rres if r['status'] != 'skipped'), 'silent': sum(1 for r in rres if r['status'] == 'silent'),
                            'alarms': [r for r in rres if r['status'] == 'ALARM'], 'known_false_alarms': [r for r in rres if r['status'] == 'KNOWN-ALARM'],
                            'skipped': [r['id'] for r in rres if r['status'] == 'skipped']}},
          sys.stdout, indent=1)
PY
python3 - "$RES" "$PROP" <<'PY'
import json, sys
d = json.load(open(sys.argv[1]))
print(f"self-test {sys.argv[2]}: {d['detected']}/{d['mutants']} mutants detected")
for m in d['missed']:
    print(f"SELFTEST-MISS property={sys.argv[2]} mutant={m}")
rf = d.get('refactorings', {})
print(f"silence test {sys.argv[2]}: {rf.get('silent', 0)}/{rf.get('applied', 0)} behaviour-preserving rewrites raise no alarm")
for a in rf.get('alarms', []):
    print(f"SELFTEST-FALSE-ALARM property={sys.argv[2]} rewrite={a['id']} fired={a['fired'][:3]}")
for a in rf.get('known_false_alarms', []):
    print(f"SELFTEST-KNOWN-FALSE-ALARM property={sys.argv[2]} rewrite={a['id']} (documented limitation: refactors/{a['id']}/KNOWN_FALSE_ALARM.txt) fired={a['fired'][:2]}")
PY

# second target: must be clean too (no evidence written)
"$BIN" -repo "$REPO" -prop "$PROP" -tier thorough -arch arm64 -known "$VERIF/known_findings.json" > "$SCRATCH/arm64.out" 2>&1
rc2=$?
if [ $rc2 -ne 0 ]; then
  echo "--- GOARCH=arm64 ---"; grep -v "^KNOWN-FINDING" "$SCRATCH/arm64.out" | tail -20
fi

"$BIN" -repo "$REPO" -prop "$PROP" -tier thorough -evidence "$VERIF/evidence" -known "$VERIF/known_findings.json" -selftest "$RES" "${@:3}"
rc=$?
if [ $rc -eq 0 ] && [ $rc2 -ne 0 ]; then
  # a violation that exists only on the second target is still a violation
  grep "^VIOLATION" "$SCRATCH/arm64.out" || true
  exit $rc2
fi
exit $rc
