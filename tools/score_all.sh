#!/bin/bash
# For every seeded patch and every revert mutant: which (property, rule) report a violation?
# Output: JSON lines {id, patch, hits:[{prop,rule,key}]}
cd /verif
run_one() {
  p=$1; id=$2
  tmp=$(mktemp -d /tmp/sc.XXXXXX)
  rsync -a --exclude .git /repo/ $tmp/r/
  if ! (cd $tmp/r && git apply $p 2>/dev/null); then echo "{\"id\":\"$id\",\"patch\":\"$p\",\"error\":\"does not apply\"}"; rm -rf $tmp; return; fi
  /verif/bin/specvet -repo $tmp/r -prop all -known /verif/known_findings.json -dump $tmp/obs.json >/dev/null 2>&1
  python3 - "$tmp/obs.json" "$id" "$p" <<'PY'
import json,sys
obs=json.load(open(sys.argv[1]))
hits=sorted({(o['property'],o['rule'],o['key']) for o in obs if o['status']!='discharged' and not o.get('known_finding')})
print(json.dumps({"id":sys.argv[2],"patch":sys.argv[3],"hits":[{"prop":a,"rule":b,"key":c} for a,b,c in hits]}))
PY
  rm -rf $tmp
}
export -f run_one
(for d in seeded/*/; do echo "/verif/$d/patch.diff $(basename $d)"; done; for m in mutants/revert_*.diff; do echo "/verif/$m $(basename $m .diff)"; done) | xargs -P 6 -L 1 bash -c 'run_one $0 $1'
