#!/usr/bin/env python3
"""Verify a seeded regression: patch applies on /repo HEAD, build + full existing suite pass with it,
demo passes without it and fails with it. Usage: verify_seed.py <seed_dir> [out_json]"""
import sys, os, re, subprocess, json, shutil, glob, time
seed = os.path.abspath(sys.argv[1]); sid = os.path.basename(seed.rstrip('/'))
out = sys.argv[2] if len(sys.argv) > 2 else f'/tmp/vs/{sid}.verdict.json'
os.makedirs('/tmp/vs', exist_ok=True)
wt = f'/tmp/vs/wt_{sid}'
env = dict(os.environ, GOFLAGS='-mod=mod', GOPROXY='off'); env.pop('GOSUMDB', None); env.pop('GOTOOLCHAIN', None)
def sh(cmd, cwd=None, timeout=1500):
    p = subprocess.run(cmd, shell=True, cwd=cwd, env=env, capture_output=True, text=True, timeout=timeout)
    return p.returncode, (p.stdout + p.stderr)
v = {'id': sid, 'ok': False, 'steps': []}
def step(name, rc, outp, expect_zero=True):
    good = (rc == 0) == expect_zero
    v['steps'].append({'step': name, 'rc': rc, 'as_expected': good, 'tail': outp[-1500:]})
    return good
try:
    demo_txt = open(os.path.join(seed, 'DEMO.txt')).read().replace('\\\n', ' ')
    m = None
    for line in demo_txt.splitlines():
        if 'go test' in line and '-run' in line:
            m = line; break
    assert m, 'no go test line in DEMO.txt'
    run = re.search(r"-run\s+('[^']+'|\"[^\"]+\"|\S+)", m).group(1).strip('\'"')
    pkg = [t for t in m.split() if t == '.' or t.startswith('./')][-1]
    assert pkg.startswith('.'), pkg
    extra = ' -race' if re.search(r'go test[^\n]*-race', m) else ''
    tests = glob.glob(os.path.join(seed, '*_test.go'))
    assert tests, 'no demo test file'
    sh(f'git -C /repo worktree remove --force {wt}'); shutil.rmtree(wt, ignore_errors=True)
    rc, o = sh(f'git -C /repo worktree add -q --detach {wt} HEAD'); assert rc == 0, o
    # generated files needed by internal/tests (git-ignored): copy from /repo if present
    for f in glob.glob('/repo/internal/tests/**/*_generated.go', recursive=True):
        dst = os.path.join(wt, os.path.relpath(f, '/repo')); shutil.copy(f, dst)
    dest = os.path.join(wt, pkg)
    names = []
    for t in tests:
        n = os.path.basename(t)
        if n in ('demo_test.go',): n = f'zz_{sid.replace("-","_").lower()}_demo_test.go'
        shutil.copy(t, os.path.join(dest, n)); names.append(os.path.join(dest, n))
    demo_cmd = f"go test -vet=off -count=1{extra} -run '{run}' {pkg}"
    okb = False
    for i in range(3):
        rc, o = sh(demo_cmd, wt)
        if step(f'demo on HEAD (try {i+1})', rc, o, True): okb = True; break
    for n in names: os.remove(n)
    rc, o = sh(f'git apply {seed}/patch.diff', wt); oka = step('git apply', rc, o, True)
    rc, o = sh('go build ./...', wt); okc = step('go build ./...', rc, o, True)
    oks = False
    for i in range(4):
        rc, o = sh('go test -vet=off -count=1 ./... 2>&1 | grep -v "no test files"', wt)
        fails = [l for l in o.splitlines() if l.startswith('FAIL') or l.startswith('--- FAIL')]
        good = not fails
        v['steps'].append({'step': f'full suite with patch (try {i+1})', 'rc': rc, 'as_expected': good, 'tail': '\n'.join(fails)[-1500:] if fails else 'all ok'})
        if good: oks = True; break
    for t, n in zip(tests, names): shutil.copy(t, n)
    nfail = 0
    for i in range(3):
        rc, o = sh(demo_cmd, wt)
        if rc != 0: nfail += 1
        last = o
    v['steps'].append({'step': 'demo with patch x3', 'failed_runs': nfail, 'as_expected': nfail == 3, 'tail': last[-1500:]})
    v['demo_cmd'] = demo_cmd; v['demo_dest'] = pkg
    v['ok'] = bool(okb and oka and okc and oks and nfail == 3)
except Exception as e:
    v['error'] = repr(e)
finally:
    sh(f'git -C /repo worktree remove --force {wt}'); shutil.rmtree(wt, ignore_errors=True)
json.dump(v, open(out, 'w'), indent=1)
print(sid, 'OK' if v['ok'] else 'NOT-OK', v.get('error', ''))
