#!/bin/bash
# like tp.sh but builds to /tmp/specvet_new (does not touch bin/specvet while a scoring run uses it)
export PATH=/opt/veriftools/go1.26.8/bin:$PATH GOTOOLCHAIN=local GOFLAGS=-mod=mod GOPROXY=off GOSUMDB=off; unset GOWORK
cd /verif
(cd checker && go build -o /tmp/specvet_new .) || exit 2
P=$1; [ -f "$P" ] || P=/verif/refactors/$1/patch.diff; [ -f "$P" ] || P=/verif/seeded/$1/patch.diff
SPECVET=/tmp/specvet_new tools/try_patch.sh "$P" "$2" $3 | grep -v " discharged \| OK " | tail -${TAILN:-15}
