#!/bin/bash
# tp.sh <refactor-id|path> <props>: rebuild specvet, apply patch to scratch worktree, show non-discharged obligations
export PATH=/opt/veriftools/go1.26.8/bin:$PATH GOTOOLCHAIN=local GOFLAGS=-mod=mod GOPROXY=off GOSUMDB=off; unset GOWORK
cd /verif
(cd checker && go build -o ../bin/specvet .) || exit 2
P=$1; [ -f "$P" ] || P=/verif/refactors/$1/patch.diff; [ -f "$P" ] || P=/verif/seeded/$1/patch.diff
tools/try_patch.sh "$P" "$2" $3 | grep -v " discharged \| OK " | tail -${TAILN:-15}
