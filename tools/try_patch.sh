#!/bin/bash
# try_patch.sh <patch.diff> <props> [-R]: apply a patch to a scratch worktree of /repo HEAD and run specvet on it.
# Prints the non-discharged obligations. Exit status = specvet's.
set -u
P=$(readlink -f "$1"); PROPS=$2; REV=${3:-}
WT=$(mktemp -d /tmp/tp.XXXXXX)
git -C /repo worktree add -q --detach "$WT/r" HEAD || exit 3
if ! git -C "$WT/r" apply $REV "$P"; then echo "PATCH DOES NOT APPLY"; git -C /repo worktree remove --force "$WT/r"; rm -rf "$WT"; exit 3; fi
${SPECVET:-/verif/bin/specvet} -repo "$WT/r" -prop "$PROPS" -known /verif/known_findings.json | grep -v "^VIOLATION" | sed "s#$WT/r/##g" | cut -c1-420
rc=${PIPESTATUS[0]}
git -C /repo worktree remove --force "$WT/r"; rm -rf "$WT"
exit $rc
