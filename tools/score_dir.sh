#!/bin/bash
# score_dir.sh <dir> [ids...]: for every <dir>/<id>/patch.diff, which (property, rule) report a violation?
# Output: one line per seed:  id  target-prop-hit?  hits by property
cd /verif
D=$(readlink -f "$1"); shift
run_one() {
  p=$1; id=$2
  tmp=$(mktemp -d /tmp/sc.XXXXXX)
  rsync -a --exclude .git /repo/ $tmp/r/
  if ! (cd $tmp/r && git apply $p 2>/dev/null); then echo "$id ERROR does-not-apply"; rm -rf $tmp; return; fi
  /verif/bin/specvet -repo $tmp/r -prop all -known /verif/known_findings.json -dump $tmp/obs.json >$tmp/out.txt 2>&1
  rc=$?
  python3 - "$tmp/obs.json" "$id" "$rc" <<'PY'
import json,sys
try: obs=json.load(open(sys.argv[1]))
except Exception as e: print(sys.argv[2],"ERROR no dump rc="+sys.argv[3]); sys.exit()
hits=sorted({(o['property'],o['rule'],o['key']) for o in obs if o['status']!='discharged' and not o.get('known_finding')})
tgt=sys.argv[2].split('-')[0]
byp={}
for a,b,c in hits: byp.setdefault(a,set()).add(b)
print(sys.argv[2], "HIT " if tgt in byp else "MISS", " ".join(f"{p}:{','.join(sorted(r))}" for p,r in sorted(byp.items())))
for a,b,c in hits:
    if a==tgt: print("     ",b,c)
PY
  rm -rf $tmp
}
export -f run_one
if [ $# -eq 0 ]; then set -- $(ls $D); fi
for id in "$@"; do echo "$D/$id/patch.diff $id"; done | xargs -P 5 -L 1 bash -c 'run_one $0 $1'
