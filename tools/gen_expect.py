#!/usr/bin/env python3
"""gen_expect.py <score_all.jsonl>: rewrite mutants/expect.jsonl from a scoreboard run (tools/score_all.sh).
Each line: the mutant, and per property the rules that must report it (the thorough tier re-checks this)."""
import json, sys, os
rows = [json.loads(l) for l in open(sys.argv[1]) if l.strip()]
out = []
for r in sorted(rows, key=lambda r: r['id']):
    if 'error' in r: continue
    exp = {}
    for h in r['hits']:
        exp.setdefault(h['prop'], set()).add(h['rule'])
    if not exp: continue
    patch = os.path.relpath(r['patch'], '/verif')
    what = ''
    mp = os.path.join('/verif/seeded', r['id'], 'meta.json')
    if os.path.exists(mp):
        m = json.load(open(mp)); what = str(m.get('summary', ''))[:200]
    else:
        what = 'reverse of fix commit ' + r['id'].split('_')[1]
    out.append({'id': r['id'], 'patch': patch, 'expect': {p: sorted(v) for p, v in sorted(exp.items())}, 'what': what})
with open('/verif/mutants/expect.jsonl', 'w') as f:
    for o in out: f.write(json.dumps(o) + '\n')
print(len(out), 'mutants')
