#!/bin/bash
# run every seed against the property it targets (and any others given) and print detection summary
cd /verif
for d in seeded/*/; do
  id=$(basename $d); prop=${id%%-*}
  out=$(tools/try_patch.sh $d/patch.diff ${1:-$prop} 2>&1)
  rc=$?
  n=$(echo "$out" | grep -c "VIOLATED\|UNDECIDED")
  echo "$id rc=$rc viol=$n $(echo "$out" | grep 'VIOLATED\|UNDECIDED' | head -1 | cut -c1-140)"
done
