#!/bin/bash
# Builds the analyser and the reference parser generator from files on disk only (offline).
set -e
cd "$(dirname "$0")"
export PATH=/opt/veriftools/go1.26.8/bin:$PATH GOTOOLCHAIN=local GOFLAGS=-mod=mod GOPROXY=off GOSUMDB=off
unset GOWORK
mkdir -p bin evidence
(cd checker && go build -o ../bin/specvet .)
(cd goyacc && go build -o ../bin/goyacc golang.org/x/tools/cmd/goyacc)
echo "specvet built: $(./bin/specvet -list | wc -l) rules; goyacc built"
