#!/bin/bash
# Builds the analyser from files on disk only (offline).
set -e
cd "$(dirname "$0")"
export PATH=/opt/veriftools/go1.26.8/bin:$PATH GOTOOLCHAIN=local GOFLAGS=-mod=mod GOPROXY=off GOSUMDB=off
unset GOWORK
mkdir -p bin evidence
(cd checker && go build -o ../bin/specvet .)
echo "specvet built: $(./bin/specvet -list | wc -l) rules"
